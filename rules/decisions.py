"""The decision table of the sync state machine (DESIGN.md 7.12).

For the functions that decide what happens to an entry, every *decision site* - a `return`, a call of a handler / state method, a store to the entry's
priority / ignore status - is recorded together with the path condition under which it is reached (guard facts, compound literals in negation normal form,
boolean locals expanded into their single definition, local names generalised to metavariables).  `rules/decisions.json` (written by
`tools/gen_decisions.py`, read through before it was committed) is today's table; the rule compares, per (function, site shape), the multiset of path
conditions on the current tree with the table's.

What this is: a detector for any change of WHEN the state machine takes which action - a negated test, a swapped and/or, a dropped or added conjunct, a
wrong side in a guard - in code that no specific rule was written for.  What it is not: a statement that today's conditions are right, nor a check of
the actions' arguments (the specific rules do that).  It is insensitive to everything the canonicalisations absorb: operand order, De Morgan forms,
guard clauses vs nested ifs, swapped if/else arms, renamed locals, extracted / hoisted helpers and locals, added logging.
"""
from __future__ import annotations

import ast
import re
import json
import os
from typing import Dict, List

from sa.model import AnalysisError
from sa.ctx import Ctx
from sa.report import Report
from sa.guards import literals

# property -> the functions whose action sites that property's decision-table rule decides
PROPERTY_FUNCTIONS = {
    "C01": ["SyncManager.sync", "SyncManager.pre_sync", "SyncManager.embrace_change", "SyncManager.handle_path_change_or_creation", "SyncManager.create_synced",
            "SyncManager.mkdir_synced", "SyncManager.unsafe_mkdir_synced", "SyncManager.finished", "SyncState.finished", "SyncState.unconditionally_get_no_info",
            "SyncManager.change_count"],
    "C02": ["SyncManager.handle_hash_diff", "SyncManager.handle_split_conflict", "SyncManager.check_disjoint_create", "SyncManager.get_folder_file_conflict",
            "SyncManager._get_parent_conflict", "SyncManager._get_child_conflict", "SyncManager._get_untrashed_peers"],
    "C03": ["SyncManager.handle_rename", "SyncManager.check_rename_is_delete_create", "SyncManager.upload_synced", "SyncManager._create_synced",
            "SyncManager.download_changed", "SyncManager.make_temp_file", "SyncManager.clean_temps", "SyncManager.update_entry"],
    "C04": ["SyncManager.delete_synced", "SyncManager._handle_dir_delete_not_empty", "SyncManager.handle_cloud_file_not_found_error",
            "SyncManager.handle_changed_is_missing", "SyncManager.check_revivify"],
    "C05": ["SyncManager.resolve_conflict", "SyncManager.__resolver_merge_upload", "SyncManager._resolve_rename", "SyncManager.__safe_call_resolver",
            "SyncManager.handle_hash_conflict", "SyncManager.rename_to_fix_conflict", "SyncManager.conflict_rename"],
    "C10": ["SyncManager._sync_one_entry", "SyncManager.do", "SyncManager.handle_file_name_error", "SyncManager.handle_corrupt"],
    "C12": ["SyncManager._validate_provider_roots"],
    "C20": ["SmartSyncManager.pre_sync"],
}
# beyond the state machine: every method of the pinned inventory (sa/inventory.json) in the modules below belongs to the property of its class, unless listed per function
_SKIP = re.compile(r"(pretty|__repr__|__str__|_log_debug_state|assert_index_is_correct|oauth|test_instance|test_short_poll_only|insert_event|create_event|__del__|"
                   r"interrupt_auth|uses_oauth|get_quota|_set_quota|memoize|TemporaryFile|^Exists\.|^Storage\.|^Namespace\.|^EventFilter\.|MockFSObject\.__init__|authenticate|set_creds)")
_CLASS_PROPERTY = {
    ("cloudsync.sync.manager", "SyncManager"): "C01", ("cloudsync.sync.manager", "ResolveFile"): "C05",
    ("cloudsync.sync.state", "SideState"): "C08", ("cloudsync.sync.state", "SyncEntry"): "C01", ("cloudsync.sync.state", "SyncState"): "C11",
    ("cloudsync.sync.state", "SyncStateLookup"): "C11",
    ("cloudsync.event", "EventManager"): "C14", ("cloudsync.event", "ProviderGuard"): "C14",
    ("cloudsync.runnable", "Runnable"): "C18", ("cloudsync.notification", "NotificationManager"): "C18",
    ("cloudsync.hierarchical_cache", None): "C19", ("cloudsync.providers.mock", None): "C16", ("cloudsync.providers.filesystem", None): "C16",
    ("cloudsync.provider", "Provider"): "C16", ("cloudsync.cs", "CloudSync"): "C06", ("cloudsync.smartsync", None): "C20",
    ("cloudsync.sync.sqlite_storage", "SqliteStorage"): "C09",
}
_FUNCTION_PROPERTY = {
    "C02": ["SideState.clear", "SideState.corrupt_exists", "SideState.corrupt_gone", "SideState.is_corrupt", "SideState.uncorrupt", "SyncEntry.ignore", "SyncEntry.unignore",
            "SyncState.split", "SideState.clean_temp"],
    "C03": ["SyncState.rename_dir", "SyncState._update_kids"],
    "C05": ["SyncManager.set_resolver", "SyncManager.__resolve_file_likes"],
    "C06": ["SyncState.__init__", "SyncState.forget", "SyncState.forget_oid", "SyncState.storage_delete_tag"],
    "C08": ["SyncEntry.serialize", "SyncEntry.deserialize", "SyncEntry.store", "SyncEntry.mark_dirty", "SyncEntry.__setattr__", "SyncEntry.__setitem__", "SyncEntry.updated",
            "SyncState.storage_commit", "SyncState.storage_get_data", "SyncState.storage_update_data", "SyncState._storage_update", "SyncState.updated"],
    "C10": ["EventManager.do", "EventManager._do_unsafe", "EventManager._reconnect_if_needed", "EventManager.__reauth", "SyncManager.done", "SyncManager.__init__"],
    "C12": ["EventManager._validate_root", "EventManager._notify_on_root_change_event", "Provider.set_root", "Provider.root_oid", "Provider.root_path",
            "Provider.is_subpath_of_root", "CloudSync.translate"],
    "C13": ["Provider.join", "Provider.split", "Provider.dirname", "Provider.basename", "Provider.normalize_path", "Provider.normalize_path_separators", "Provider.is_subpath",
            "Provider.replace_path", "Provider.paths_match", "Provider.__normalize_path_list", "Provider.__strip_path_list"],
    "C14": ["SyncState.update", "SyncState.lookup_creation", "SyncState.lookup_deletion"],
    "C17": ["SideState.needs_sync", "SideState.mark_changed", "SideState.set_aged", "SideState.set_force_sync", "SideState._set_mtime", "SyncEntry.punt", "SyncEntry.mark_changed",
            "SyncState.change", "SyncState.changes", "SyncState._changeset", "SyncState.changeset_len", "SyncState.mark_changed", "CloudSync.prioritize", "CloudSync.aging"],
    "C18": ["CloudSync.start", "CloudSync.stop", "CloudSync.wait", "CloudSync.done", "CloudSync.do", "CloudSync.busy", "CloudSync.handle_notification", "EventManager.stop",
            "EventManager.done", "EventManager.busy", "SyncManager._temp_file"],
}


# functions a property reads although they are listed with another one (a function can matter to several properties)
EXTRA_FUNCTIONS = {
    "C01": ["SyncState.updated", "SyncManager.upload_synced", "SyncState.finished", "SyncState.unconditionally_get_latest"],
    "C02": ["SmartCloudSync._sync_one_entry", "SmartCloudSync._smart_unsync_ent", "SideState.__setattr__", "SyncManager.make_temp_file", "SyncManager.download_changed", "SyncManager.upload_synced"],
    "C03": ["SyncState.change", "SyncState.unconditionally_get_latest", "SyncManager.sync"],
    "C04": ["EventManager._process_event", "SyncState._change_oid", "SyncEntry.is_deletion", "SyncEntry.is_creation", "SyncState.update", "SyncManager._get_parent_conflict", "SyncManager._get_child_conflict"],
    "C05": ["SyncManager.make_temp_file", "SyncManager.download_changed"],
    "C16": ["Provider.is_subpath", "Provider.replace_path"],
    "C17": ["SyncManager.handle_hash_diff", "SmartSyncState.__init__"],
    "C06": ["SyncEntry.is_trash", "EventManager._validate_root", "EventManager._save_current_cursor", "EventManager._do_first_init", "EventManager._do_walk_if_needed", "EventManager._forget_walk_marker",
            "EventManager._process_event"],
    "C07": ["SyncManager.handle_split_conflict", "SyncManager.check_disjoint_create", "SyncState.__init__", "SyncManager.path_conflict", "EventManager._do_first_init", "EventManager._save_current_cursor", "SyncManager._sync_one_entry", "SyncState._storage_update",
            "SyncState.storage_commit", "SyncManager.finished"],
    "C10": ["SyncManager.handle_hash_conflict", "EventManager.do", "CloudSync.__init__", "CloudSync.authenticate", "Runnable.__increment_backoff", "Runnable.backoff", "Runnable.run", "SyncManager.handle_file_name_error"],
    "C11": ["CloudSync.forget", "SyncEntry.__setitem__", "SyncState.forget", "SyncState.updated", "SyncState.update"],
    "C12": ["EventManager._process_event", "SyncManager.embrace_change"],
    "C13": ["CloudSync.translate", "Provider.is_subpath_of_root"],
    "C14": ["SyncManager.check_disjoint_create", "SyncState._change_path", "SyncState._change_oid", "SyncManager._handle_dir_delete_not_empty", "EventManager.queue", "SyncManager.do", "Provider._walk", "Provider.walk", "Provider.walk_oid", "EventManager._do_walk_if_needed"],
    "C08": ["SqliteStorage.delete", "SqliteStorage.update", "SqliteStorage.create", "SqliteStorage.read_all", "EventManager._process_event"],
    "C15": ["CloudSync.forget", "SyncManager.do", "EventManager._do_unsafe", "SyncState.changes", "NotificationManager.__init__", "NotificationManager.notify"],
    "C20": ["SmartSyncState._changeset", "SyncManager._sync_one_entry", "SyncManager.sync", "SyncManager.pre_sync"],
}


def _fill_from_inventory():
    from sa.reinline import inventory
    inv = inventory()
    taken = {f for fs in PROPERTY_FUNCTIONS.values() for f in fs}
    for p, fs in _FUNCTION_PROPERTY.items():
        for q in fs:
            if q not in taken and any(q in inv.get(m, []) for m in inv):
                PROPERTY_FUNCTIONS.setdefault(p, []).append(q)
                taken.add(q)
    for (mod, cls), p in _CLASS_PROPERTY.items():
        for q in inv.get(mod, []):
            if q in taken or _SKIP.search(q) or (cls is not None and q.split(".")[0] != cls):
                continue
            PROPERTY_FUNCTIONS.setdefault(p, []).append(q)
            taken.add(q)


_fill_from_inventory()
DECISION_FUNCTIONS = [f for p in sorted(PROPERTY_FUNCTIONS) for f in PROPERTY_FUNCTIONS[p]]
# shapes that are bookkeeping of one way of writing a search (a flag set in a loop, a filtering comprehension): decided only while the number of such sites is unchanged
TOLERANT = ("set ", "filter ", "break")


def _generalise(txt: str) -> str:
    from rules.common import generalise
    return generalise(txt)


class _Norm:
    """Per-function normaliser of fact / site expressions: hoisted aliases are replaced by what they stand for, and every side expression by a role token
    (SIDE0 = the function's first side base - its side parameter or loop variable -, OTHER0 = its complement, LOCAL / REMOTE for constants), so that
    `sync[synced]`, `sync[OTHER_SIDE[changed]]`, `sync[other]` with `other = other_side(changed)` all read `sync[OTHER0]` - and `sync[changed]` does not."""

    def __init__(self, ctx: Ctx, f, subst: Dict[str, ast.AST] = None):
        from sa.sides import SideAnalysis, canon as scanon
        self.ctx, self.f = ctx, f
        # a helper read in place: its parameters stand for the (already normalised) argument expressions of the call
        self.subst = subst or {}
        sa = getattr(ctx, "_decision_sides", None)
        if sa is None:
            sa = ctx._decision_sides = SideAnalysis(ctx)
        self.sa, self.scanon = sa, scanon
        defs: Dict[str, List[ast.AST]] = {}
        for n in ctx.own_nodes(f):
            if isinstance(n, (ast.Assign, ast.AnnAssign)) and getattr(n, "value", None) is not None:
                tg = n.targets[0] if isinstance(n, ast.Assign) else n.target
                if isinstance(tg, ast.Name):
                    defs.setdefault(tg.id, []).append(n.value)
            elif isinstance(n, (ast.For, ast.comprehension)) and isinstance(n.target, ast.Name):
                defs.setdefault(n.target.id, []).append(None)
                defs[n.target.id].append(None)      # loop variables are never single-definition aliases
        self.defs = {k: [x for x in v] for k, v in defs.items()}
        self.locdefs: Dict[str, List] = {}       # local -> what defines it (values, iterables), for locals that are neither parameters nor aliases
        for n in ctx.own_nodes(f):
            if isinstance(n, (ast.Assign, ast.AnnAssign)) and getattr(n, "value", None) is not None:
                tg = n.targets[0] if isinstance(n, ast.Assign) else n.target
                if isinstance(tg, ast.Name):
                    self.locdefs.setdefault(tg.id, []).append(("=", n.value, n))
                elif isinstance(tg, ast.Tuple):
                    for i, e in enumerate(tg.elts):
                        if isinstance(e, ast.Name):
                            self.locdefs.setdefault(e.id, []).append(("=[%d]" % i, n.value, n))
            elif isinstance(n, ast.AugAssign) and isinstance(n.target, ast.Name):
                self.locdefs.setdefault(n.target.id, []).append(("+=", n.value, n))
            elif isinstance(n, ast.For):        # comprehension variables have their own scope: they are written ELEM
                if isinstance(n.target, ast.Name):
                    self.locdefs.setdefault(n.target.id, []).append(("in", n.iter, n))
                elif isinstance(n.target, ast.Tuple):
                    for i, e in enumerate(n.target.elts):
                        if isinstance(e, ast.Name):
                            self.locdefs.setdefault(e.id, []).append(("in[%d]" % i, n.iter, n))
            elif isinstance(n, ast.ExceptHandler) and n.name:
                self.locdefs.setdefault(n.name, []).append(("except", n.type, None))
            elif isinstance(n, ast.withitem) and isinstance(n.optional_vars, ast.Name):
                self.locdefs.setdefault(n.optional_vars.id, []).append(("with", n.context_expr, None))
        for p in f.all_param_names():
            self.locdefs.pop(p, None)
        self._def_text: Dict = {}
        self._reaching: Dict = {}
        # module-level `NAME = <number / string literal>` (not the enum-like names the engine compares by identity)
        self.consts = {}
        for st_ in f.module.tree.body:
            if isinstance(st_, (ast.Assign, ast.AnnAssign)) and getattr(st_, "value", None) is not None and isinstance(st_.value, ast.Constant) \
                    and isinstance(st_.value.value, (int, float, str)) and not isinstance(st_.value.value, bool):
                tg_ = st_.targets[0] if isinstance(st_, ast.Assign) else st_.target
                if isinstance(tg_, ast.Name) and tg_.id not in ("LOCAL", "REMOTE", "FILE", "DIRECTORY", "NOTKNOWN"):
                    self.consts[tg_.id] = st_.value.value
        self.alias = {}
        for k, v in defs.items():
            if len(v) == 1 and v[0] is not None and k not in f.all_param_names():
                e0 = v[0]
                if any(isinstance(x, ast.Name) and x.id == k for x in ast.walk(e0)):
                    continue
                if all(isinstance(x, (ast.Attribute, ast.Subscript, ast.Name, ast.Load, ast.Constant)) for x in ast.walk(e0)) and not isinstance(e0, (ast.Name, ast.Constant)) \
                        and not (isinstance(e0, ast.Subscript) and isinstance(e0.value, ast.Name) and e0.value.id == "OTHER_SIDE"):
                    self.alias[k] = e0
        # names used in a side position (index of an entry or of a per-side pair, operand of a complement), and the bases they resolve to
        cand = []
        for n in sorted([x for x in ctx.own_nodes(f) if isinstance(x, (ast.Subscript, ast.Call, ast.BinOp))], key=lambda x: (x.lineno, x.col_offset)):
            e = None
            if isinstance(n, ast.Subscript):
                if isinstance(n.value, ast.Name) and n.value.id == "OTHER_SIDE":
                    e = n.slice
                elif isinstance(n.slice, ast.Name):
                    try:
                        ty = ctx.res.type_of(f, n.value)
                    except Exception:
                        ty = frozenset()
                    if any(t[0] == "tup" or (t[0] == "inst" and t[1].endswith(".SyncEntry")) for t in ty) or \
                            (not ty and n.slice.id in ("side", "changed", "synced", "other", "defer_side", "replace_side", "defer", "replace")):
                        e = n.slice
            elif isinstance(n, ast.Call) and isinstance(n.func, ast.Name) and n.func.id == "other_side" and len(n.args) == 1:
                e = n.args[0]
            elif isinstance(n, ast.BinOp) and isinstance(n.op, ast.Sub) and isinstance(n.left, ast.Constant) and n.left.value == 1:
                e = n.right
            if isinstance(e, ast.Name) and e.id not in ("LOCAL", "REMOTE") and e.id not in self.alias:
                cand.append(e.id)
        # the base of a recognised side is a side too (`synced` is other(`changed`): a function that only passes `changed` on still has it as a side)
        for nm in list(cand):
            sd = self.sa.side_expr(f, ast.Name(id=nm, ctx=ast.Load()))
            if sd is not None and not sd[0].startswith("#") and sd[0] in f.all_param_names() and sd[0] not in cand:
                cand.append(sd[0])
        self.side_names = set(cand)
        params = [p for p in f.all_param_names()]
        bases: List[str] = []
        for nm in [p for p in params if p in self.side_names] + cand:
            sd = self.sa.side_expr(f, ast.Name(id=nm, ctx=ast.Load()))
            if sd is not None and not sd[0].startswith("#") and sd[0] not in bases:
                bases.append(sd[0])
        self.bases = bases

    def token(self, e):
        sd = self.scanon(self.sa.side_expr(self.f, e))
        if sd is None:
            return None
        if sd[0] == "#0":
            return "LOCAL"
        if sd[0] == "#1":
            return "REMOTE"
        if sd[0] in self.subst and isinstance(self.subst[sd[0]], ast.Name) and _TOKEN.match(self.subst[sd[0]].id):
            t = self.subst[sd[0]].id        # the caller's token for this parameter
            if sd[1]:
                t = {"LOCAL": "REMOTE", "REMOTE": "LOCAL"}.get(t) or (("OTHER" + t[4:]) if t.startswith("SIDE") else ("SIDE" + t[5:]))
            return t
        if sd[0] in self.bases:
            return "%s%d" % ("OTHER" if sd[1] else "SIDE", self.bases.index(sd[0]))
        return None

    def reaching(self, name: str, at=None):
        """the definitions of a local that reach `at` (all of them when that cannot be told)"""
        key = (name, id(at))
        if key not in self._reaching:
            from sa.ctx import reaching_defs
            entries = self.locdefs[name]
            if at is not None and all(e[2] is not None for e in entries) and len(entries) > 1:
                try:
                    rd, _ = reaching_defs(self.ctx, self.f, at, name)
                except Exception:       # the statement is not in this function's graph (a fact carried over from the caller)
                    rd = []
                live = [e for e in entries if any(e[2] is d for d in rd)]
                if live:
                    entries = live
            self._reaching[key] = entries
        return self._reaching[key]

    @staticmethod
    def _opaque(v) -> str:
        """a value that is described by its kind, not its text: how a flag or a collection is computed is bookkeeping"""
        if v is None:
            return ""
        if isinstance(v, ast.Constant) and isinstance(v.value, bool):
            return "FLAG"
        if isinstance(v, ast.Constant):
            return repr(v.value)
        if _is_search(v):
            return "FLAG"
        if isinstance(v, (ast.ListComp, ast.SetComp, ast.DictComp, ast.GeneratorExp, ast.List, ast.Set, ast.Dict, ast.Tuple, ast.Lambda)) or \
                (isinstance(v, ast.Call) and isinstance(v.func, ast.Name) and v.func.id in ("list", "set", "dict", "sorted", "tuple")):
            return "COLLECTION"
        return ""

    def def_text(self, name: str, at=None, depth: int = 0) -> str:
        """what defines a local where `at` is evaluated (its reaching definitions), as text that does not depend on its name:
        `info` is `= self.providers[OTHER0].info_oid(?a)`"""
        key = (name, id(at))
        if key not in self._def_text:
            from rules.common import generalise
            out = set()
            for (how, v, _st) in self.reaching(name, at):
                op = self._opaque(v)
                if v is None:
                    out.add(how)
                elif op:
                    out.add("%s %s" % (how, op))
                else:
                    # (the expression a `with ... as x` opens is expanded once more: `open(partial_name, 'wb')` is `open(self.f + '.tmp', 'wb')`)
                    out.add("%s %s" % (how, generalise(ast.unparse(self.expr(v, defs=(how == "with" and depth < 2), at=v if how == "with" else None, depth=depth + 1)))))
            self._def_text[key] = " | ".join(sorted(out)).replace("$", "?")     # `$` would be read as a metavariable by the matcher
        return self._def_text[key]

    def expr(self, e: ast.AST, defs: bool = True, at=None, depth: int = 0) -> ast.AST:
        """the expression with aliases expanded, side expressions as role tokens, comprehension variables as ELEM, and (defs=True) every other local replaced by what
        defines it where `at` is evaluated: its defining expression when there is exactly one plain assignment, a DEF(...) descriptor otherwise"""
        me = self

        class U(ast.NodeTransformer):
            def __init__(self):
                self.bound = []

            def _tok(self, n):
                t = me.token(n)
                return ast.copy_location(ast.Name(id=t, ctx=ast.Load()), n) if t else None

            def visit_Name(self, n):
                if any(n.id in b for b in self.bound):
                    return ast.copy_location(ast.Name(id="ELEM", ctx=ast.Load()), n)
                if isinstance(n.ctx, ast.Load) and n.id in me.consts and n.id not in me.locdefs:
                    return ast.copy_location(ast.Constant(value=me.consts[n.id]), n)        # a named literal of the module is its value
                if n.id in me.subst and isinstance(n.ctx, ast.Load):
                    t = self._tok(n) if n.id in me.side_names else None
                    return t if t is not None else ast.copy_location(ast.parse(ast.unparse(me.subst[n.id]), mode="eval").body, n)
                if isinstance(n.ctx, ast.Load) and n.id in me.alias:
                    return ast.copy_location(self.visit(ast.parse(ast.unparse(me.alias[n.id]), mode="eval").body), n)
                if n.id in me.side_names:
                    t = self._tok(n)
                    if t is not None:
                        return t
                if defs and isinstance(n.ctx, ast.Load) and n.id in me.locdefs and n.id not in me.side_names:
                    ents = me.reaching(n.id, at)
                    if len(ents) == 1 and ents[0][0] == "=" and ents[0][1] is not None and not me._opaque(ents[0][1]) and depth < 3 \
                            and not any(isinstance(x, ast.Name) and x.id == n.id for x in ast.walk(ents[0][1])):
                        return ast.copy_location(me.expr(ents[0][1], defs=True, at=ents[0][2], depth=depth + 1), n)
                    dt = me.def_text(n.id, at, depth)
                    if dt == "= COLLECTION" and n is not root:
                        return ast.copy_location(ast.Name(id="COLLECTION", ctx=ast.Load()), n)      # inside an expression a collection is a collection
                    return ast.copy_location(ast.Call(func=ast.Name(id="DEF", ctx=ast.Load()), args=[ast.Constant(value=dt)], keywords=[]), n)
                return n

            def _scoped(self, n):
                names = set()
                for g in n.generators:
                    names |= {x.id for x in ast.walk(g.target) if isinstance(x, ast.Name)}
                self.bound.append(names)
                try:
                    return self.generic_visit(n)
                finally:
                    self.bound.pop()

            def _collection(self, n):
                if getattr(n, "_searched", False):
                    return self._scoped(n)
                return ast.copy_location(ast.Name(id="COLLECTION", ctx=ast.Load()), n)      # how a collection is built is bookkeeping (comprehension <-> loop)
            visit_ListComp = visit_SetComp = visit_DictComp = visit_GeneratorExp = _collection

            def visit_Lambda(self, n):
                self.bound.append({a.arg for a in n.args.args + n.args.kwonlyargs + n.args.posonlyargs})
                try:
                    return self.generic_visit(n)
                finally:
                    self.bound.pop()

            def visit_Subscript(self, n):
                if isinstance(n.value, ast.Name) and n.value.id == "OTHER_SIDE":
                    return self._tok(n) or self.generic_visit(n)
                return self.generic_visit(n)

            def visit_Call(self, c):
                if isinstance(c.func, ast.Name) and c.func.id == "other_side" and len(c.args) == 1:
                    return self._tok(c) or self.generic_visit(c)
                if c.keywords:
                    dflt = _defaults_by_name(me.ctx, c.func.attr if isinstance(c.func, ast.Attribute) else (c.func.id if isinstance(c.func, ast.Name) else None))
                    if dflt:
                        c.keywords = [k for k in c.keywords if not (k.arg in dflt and isinstance(k.value, ast.Constant) and dflt[k.arg] == ast.unparse(k.value))]
                if isinstance(c.func, ast.Name) and c.func.id in ("any", "all") and c.args:
                    c.args[0]._searched = True
                return self.generic_visit(c)

            def visit_BinOp(self, b):
                if isinstance(b.op, ast.Sub) and isinstance(b.left, ast.Constant) and b.left.value == 1:
                    return self._tok(b) or self.generic_visit(b)
                return self.generic_visit(b)
        root = ast.parse(ast.unparse(e), mode="eval").body
        return U().visit(root)

    def txt(self, txt: str, at=None) -> str:
        try:
            e = ast.parse(txt, mode="eval").body
        except SyntaxError:
            return txt
        return ast.unparse(self.expr(e, at=at))


def _is_search(v) -> bool:
    if isinstance(v, ast.UnaryOp) and isinstance(v.op, ast.Not):
        v = v.operand
    return isinstance(v, ast.Call) and isinstance(v.func, ast.Name) and v.func.id in ("any", "all")


def _norm(ctx: Ctx, f) -> _Norm:
    cache = ctx.__dict__.setdefault("_decision_norms", {})
    if f.qname not in cache:
        cache[f.qname] = _Norm(ctx, f)
    return cache[f.qname]


def _pure_call(c) -> bool:
    from sa.defassign import _PURE
    nm = c.func.attr if isinstance(c.func, ast.Attribute) else (c.func.id if isinstance(c.func, ast.Name) else "")
    return bool(_PURE.match(nm))


def _is_log(call: ast.Call) -> bool:
    f = call.func
    while isinstance(f, (ast.Attribute, ast.Call)):
        f = f.value if isinstance(f, ast.Attribute) else f.func
    return isinstance(f, ast.Name) and f.id in ("log", "logging", "print")


_NOT_A_SITE = {"list", "set", "dict", "tuple", "sorted", "min", "max", "any", "all", "range", "enumerate", "zip", "str", "int", "bool", "float", "bytes", "repr", "print",
               "type", "id", "iter", "next", "super", "len", "isinstance", "issubclass", "hasattr", "getattr", "reversed", "filter", "map", "sum", "abs", "round", "frozenset",
               "open", "cast", "format", "other_side", "debug_sig", "vars", "callable", "hash", "ord", "chr", "divmod"}
_CONTAINER_METHODS = {"append", "extend", "add", "insert", "update", "sort", "remove", "discard", "pop", "clear", "setdefault", "popleft", "appendleft", "format", "encode",
                      "decode", "strip", "lstrip", "rstrip", "replace", "hex", "digest", "count", "index", "find", "rfind", "partition", "rpartition", "rsplit", "splitlines",
                      "isoformat", "total_seconds", "group", "match", "search", "fullmatch", "sub", "casefold", "title"}


def _empty_collection(v) -> bool:
    return (isinstance(v, (ast.Dict, ast.List, ast.Set, ast.Tuple)) and not (getattr(v, "keys", None) or getattr(v, "elts", None))) or \
        (isinstance(v, ast.Call) and isinstance(v.func, ast.Name) and v.func.id in ("dict", "list", "set", "OrderedDict", "defaultdict") and not v.args and not v.keywords)


class _Slots(ast.NodeTransformer):
    """`d.setdefault(k, {})` read as the slot `d[k]`"""
    def visit_Call(self, c):
        self.generic_visit(c)
        if isinstance(c.func, ast.Attribute) and c.func.attr == "setdefault" and len(c.args) == 2 and _empty_collection(c.args[1]):
            return ast.copy_location(ast.Subscript(value=c.func.value, slice=c.args[0], ctx=ast.Load()), c)
        return c


def _impure_site(c: ast.Call, nm=None) -> bool:
    """a call that does something or asks the outside world - not a query of the in-memory state, a constructor, a log line or a container / string method of a local"""
    if _is_log(c) or _pure_call(c):
        return False
    fn = c.func
    if isinstance(fn, ast.Name):
        return not (fn.id in _NOT_A_SITE or fn.id[:1].isupper())
    if isinstance(fn, ast.Attribute):
        if fn.attr[:1].isupper():
            return False        # a class of a module: ex.CloudFileNotFoundError(...)
        if fn.attr == "setdefault" and len(c.args) == 2 and _empty_collection(c.args[1]):
            return False        # `d.setdefault(k, {})` makes sure the slot exists: the spelling of `if k not in d: d[k] = {}`
        recv = ast.unparse(fn.value)
        val = nm.expr(fn.value, defs=False) if nm is not None else fn.value        # a hoisted alias of an attribute is that attribute
        if fn.attr in _CONTAINER_METHODS and isinstance(val, (ast.Name, ast.Constant, ast.JoinedStr, ast.Call)) and recv != "self":
            return False        # a method of a local collection / string; `sync[side].clear()`, `self._dirtyset.add(x)` are actions
        if recv.split(".")[0] in ("os", "time", "hashlib", "msgpack", "logging", "re", "json", "copy", "traceback", "threading", "random", "tempfile", "shutil", "datetime",
                                   "urllib", "base64", "struct", "itertools", "functools", "sys", "errno", "stat", "math"):
            return recv.split(".")[0] in ("os", "shutil", "tempfile", "time") and fn.attr not in ("time", "monotonic", "exists", "join", "dirname", "basename", "normpath",
                                                                                                 "split", "splitext", "isdir", "isfile", "getsize", "fspath", "commonprefix")
        return True
    return False


def _calls_in(w, e: ast.AST, at, pre):
    """(call, formula known when it is evaluated beyond the statement's condition) for the impure calls of an expression, respecting short-circuit evaluation;
    lambdas and comprehension bodies are other scopes / per element and are not walked"""
    from rules.reachcond import f_and, f_not
    out = []
    if e is None or isinstance(e, ast.Lambda):
        return out
    if isinstance(e, (ast.ListComp, ast.SetComp, ast.DictComp, ast.GeneratorExp)):
        # what a comprehension calls per element is reached whenever the comprehension is (as the body of a loop is)
        for g in e.generators:
            out += _calls_in(w, g.iter, at, pre)
            for c in g.ifs:
                out += _calls_in(w, c, at, pre)
        for part in ([e.key, e.value] if isinstance(e, ast.DictComp) else [e.elt]):
            out += _calls_in(w, part, at, pre)
        return out
    if isinstance(e, ast.Call) and isinstance(e.func, ast.Name) and e.func.id == "map" and len(e.args) == 2 and isinstance(e.args[0], ast.Attribute):
        # map(self.f, xs) calls self.f(x) per element
        call = ast.copy_location(ast.Call(func=e.args[0], args=[ast.Name(id="ELEM", ctx=ast.Load())], keywords=[]), e)
        out += _calls_in(w, e.args[1], at, pre)
        if _impure_site(call, w.nm):
            out.append((call, pre))
        return out
    if isinstance(e, ast.BoolOp):
        cur = pre
        for v in e.values:
            out += _calls_in(w, v, at, cur)
            c = w.formula(v, at)
            cur = f_and(cur, c if isinstance(e.op, ast.And) else f_not(c))
        return out
    if isinstance(e, ast.Call) and _is_log(e):
        return out          # what a log line evaluates is not an action
    if isinstance(e, ast.IfExp):
        out += _calls_in(w, e.test, at, pre)
        c = w.formula(e.test, at)
        out += _calls_in(w, e.body, at, f_and(pre, c))
        out += _calls_in(w, e.orelse, at, f_and(pre, f_not(c)))
        return out
    for ch in ast.iter_child_nodes(e):
        if isinstance(ch, ast.AST) and not isinstance(ch, (ast.stmt, ast.expr_context, ast.operator, ast.boolop, ast.unaryop, ast.cmpop)):
            out += _calls_in(w, ch, at, pre)
    if isinstance(e, ast.Call) and _impure_site(e, w.nm):
        out.append((e, pre))
    return out


def _functions_of(ctx: Ctx, spec: str):
    try:
        return [ctx.prog.func(spec)]
    except AnalysisError:
        return []


def _return_sites(w, v, at, pre):
    """(shape, formula) of a returned / yielded value; the arms of a conditional expression are separate sites"""
    from rules.reachcond import f_and, f_not
    if v is None or (isinstance(v, ast.Constant) and v.value is None):
        return []       # `return` / `return None` is what falling off the end does: not a site (guard-clause style would add and remove them)
    if isinstance(v, ast.IfExp):
        c = w.formula(v.test, at)
        return _return_sites(w, v.body, at, f_and(pre, c)) + _return_sites(w, v.orelse, at, f_and(pre, f_not(c)))
    if isinstance(v, ast.Name) and v.id in w.nm.locdefs and v.id not in w.nm.side_names:
        ents = w.nm.reaching(v.id, at)
        if len(ents) == 1 and ents[0][0] == "=" and ents[0][1] is not None and _constant_like(ents[0][1]):
            return [(ast.unparse(ents[0][1]), pre)]
    if isinstance(v, ast.Constant) and isinstance(v.value, bool):
        return [("<true>" if v.value else "<false>", pre)]
    if _constant_like(v):
        return [(ast.unparse(v), pre)]
    # a returned test is a decision: `return a and b` is `if a and b: return True` / `return False`
    vv = v
    if isinstance(vv, ast.Name) and vv.id in w.nm.locdefs and vv.id not in w.nm.side_names:
        ents = w.nm.reaching(vv.id, at)
        if len(ents) == 1 and ents[0][0] == "=" and isinstance(ents[0][1], (ast.BoolOp, ast.Compare, ast.UnaryOp)) and not w.nm._opaque(ents[0][1]):
            vv = ents[0][1]
    if isinstance(vv, (ast.BoolOp, ast.Compare)) or (isinstance(vv, ast.UnaryOp) and isinstance(vv.op, ast.Not)):
        c = w.formula(vv, at)
        return [("<true>", f_and(pre, c)), ("<false>", f_and(pre, f_not(c)))]
    if not any(isinstance(x, ast.Call) and (_impure_site(x, w.nm) or (isinstance(x.func, ast.Name) and x.func.id[:1].isupper())
                                            or (isinstance(x.func, ast.Attribute) and x.func.attr[:1].isupper())) for x in ast.walk(v)):
        _note_value(w, "return <expr>", _val_text(w, v, at))        # (a returned action / constructor has its own row; a shared builder may be extracted)
    return [("<expr>", pre)]        # which local carries the value is spelling: `x = f(); return x` is `return f()`


def _val_text(w, e, at) -> str:
    """a value (an argument, what is stored, what is returned) in the name-independent spelling of the atoms"""
    try:
        return _generalise(ast.unparse(_Slots().visit(w.nm.expr(e, at=at))))
    except Exception:
        return "<?>"


def _note_value(w, shape: str, text: str):
    vals = w.__dict__.setdefault("values", {})
    vals.setdefault(shape, []).append(text)


def _sites_of(w, node, at):
    """(shape, extra formula) of the action sites of one statement / test / iterable / context expression"""
    from rules.reachcond import TRUE, f_and, f_not
    ctx, f, nm = w.ctx, w.f, w.nm
    out = []
    if isinstance(node, ast.Pass):
        return out
    if isinstance(node, ast.stmt):
        parts = [x for x in ast.iter_child_nodes(node) if isinstance(x, (ast.expr, ast.keyword))]
    else:
        parts = [node]
    for p in parts:
        for (c, pre) in _calls_in(w, p, at, TRUE):
            if id(c) in w.skip_calls:
                continue
            sh = _call_shape(c, w.nm, ctx, w.f)
            out.append((sh, pre))
            pos_ = _bound(ctx, w.f, c)
            argv = []
            for i_, a in enumerate(c.args):
                if not _is_default(c, pos_, i_, a):
                    argv.append("#%d=%s" % (i_, _val_text(w, a, at)))
            for k in c.keywords:
                if k.arg and not _is_default(c, pos_, k.arg, k.value):
                    argv.append("%s=%s" % ("#%d" % pos_.index(k.arg) if pos_ and k.arg in pos_ else k.arg, _val_text(w, k.value, at)))
            _note_value(w, sh, "(" + ", ".join(sorted(argv)) + ")")
    st = node
    if not isinstance(st, ast.stmt):
        return out
    if isinstance(st, ast.Return):
        out += [("return " + sh, pre) for (sh, pre) in _return_sites(w, st.value, at, TRUE)]
    elif isinstance(st, ast.Expr) and isinstance(st.value, (ast.Yield, ast.YieldFrom)):
        out += [("yield " + sh, pre) for (sh, pre) in (_return_sites(w, st.value.value, at, TRUE) or [("None", TRUE)])]
    elif isinstance(st, ast.Break):
        out.append(("break", TRUE))         # tolerant: decided only while both sides have it (a search loop may be rewritten with any())
    elif isinstance(st, ast.Raise):
        out.append(("raise " + (ast.unparse(st.exc.func) if isinstance(st.exc, ast.Call) else ("$a" if isinstance(st.exc, ast.Name) and not st.exc.id[:1].isupper() else
                                                                                                (ast.unparse(st.exc) if st.exc is not None else ""))), TRUE))
    elif isinstance(st, ast.Delete):
        for tg in st.targets:
            if not isinstance(tg, ast.Name):
                out.append(("del " + _generalise(ast.unparse(nm.expr(tg, defs=False))), TRUE))
    elif isinstance(st, (ast.Assign, ast.AugAssign, ast.AnnAssign)) and getattr(st, "value", None) is not None:
        tgs = st.targets if isinstance(st, ast.Assign) else [st.target]
        flat = []
        for tg in tgs:
            flat += list(tg.elts) if isinstance(tg, (ast.Tuple, ast.List)) else [tg]
        for tg in flat:
            shape = None
            if isinstance(tg, ast.Attribute):
                shape = "store %s.%s" % (_generalise(ast.unparse(nm.expr(tg.value, defs=False))), tg.attr)
            elif isinstance(tg, ast.Subscript) and isinstance(st, ast.Assign) and isinstance(nm.expr(st.value, at=st), ast.Subscript):
                shape = "graft %s" % _generalise("(%s, %s)" % (ast.unparse(nm.expr(tg, defs=False)), ast.unparse(nm.expr(nm.expr(st.value, at=st), defs=False))))
            elif isinstance(tg, ast.Subscript) and _empty_collection(st.value):
                shape = None        # making sure a slot exists (`if k not in d: d[k] = {}`) is bookkeeping, like setdefault
            elif isinstance(tg, ast.Subscript):
                shape = "setitem %s" % _generalise(ast.unparse(nm.expr(_Slots().visit(ast.parse(ast.unparse(tg), mode="eval").body), defs=False)))
            elif isinstance(tg, ast.Name) and isinstance(st, ast.Assign) and isinstance(st.value, ast.Constant) and isinstance(st.value.value, (bool, type(None))):
                shape = "set $a = %r" % (st.value.value,)
            elif isinstance(tg, ast.Name) and isinstance(st, ast.Assign) and isinstance(st.value, ast.Name) and len(flat) == 1:
                shape = "set $a = $b"
            elif isinstance(tg, ast.Name) and isinstance(st, ast.AugAssign) and isinstance(st.value, ast.Constant):
                shape = "set $a %s= %r" % (type(st.op).__name__, st.value.value)
            elif isinstance(tg, ast.Name) and isinstance(st, ast.Assign) and _filters(st.value) and len(flat) == 1:
                kept = TRUE
                for (t, p) in sorted(_filter_facts(st.value)):
                    a_ = w.atom(nm.txt(t, st), st)
                    kept = f_and(kept, a_ if p else f_not(a_))
                out.append(("filter $a", kept))
            if shape is not None:
                # `x.a = p if c else q` is `if c: x.a = p` / `else: x.a = q`: the same store either way - one site
                out.append((shape, TRUE))
                if shape.startswith(("store ", "setitem ")) and len(flat) == 1:
                    if isinstance(st.value, ast.IfExp):
                        _note_value(w, shape, _val_text(w, st.value.body, st))
                        _note_value(w, shape, _val_text(w, st.value.orelse, st))
                    else:
                        if isinstance(st, ast.Assign) and isinstance(st.value, ast.BinOp) and ast.unparse(st.value.left) == ast.unparse(tg):
                            _note_value(w, shape, "%s= " % type(st.value.op).__name__ + _val_text(w, st.value.right, st))      # `x = x + 1` is `x += 1`
                        elif isinstance(st, ast.Assign) and isinstance(tg, ast.Attribute) and not any(isinstance(x, ast.Call) for x in ast.walk(tg)):
                            # target and value are named together, so that `a[s].x = a[s].y` and `a[s].x = b[s].y` differ
                            pair = ast.Tuple(elts=[tg.value, st.value], ctx=ast.Load())
                            pair = _Slots().visit(ast.parse(ast.unparse(pair), mode="eval").body)
                            _note_value(w, shape, _val_text(w, pair, st))
                        else:
                            _note_value(w, shape, ("%s= " % type(st.op).__name__ if isinstance(st, ast.AugAssign) else "") + _val_text(w, st.value, st))
    return out


def _single_caller(ctx: Ctx, h) -> bool:
    """a private method with exactly one call site in the program, in a method of its own class hierarchy: the product (or the target) of extract / inline method"""
    if h.cls is None or not h.name.startswith("_") or h.name.endswith("__"):
        return False
    cache = ctx.__dict__.setdefault("_decision_single", {})
    if h.qname not in cache:
        ok = ctx.helper_of(h) is not None and not any(True for c in ctx.prog.functions.values() if c is not h and c.name == h.name and c.cls is not None
                                                      and c.cls is not h.cls and (h.cls in getattr(c.cls, "mro", []) or c.cls in getattr(h.cls, "mro", [])))
        if ok:
            # no other mention of the method (a reference handed to map(), a callback registration) anywhere in its module
            bare = h.name if not h.name.startswith("__") else None
            refs = sum(1 for x in ast.walk(h.module.tree) if isinstance(x, ast.Attribute) and (x.attr == h.name or (bare is None and x.attr.endswith(h.name))))
            ok = refs <= 1
        cache[h.qname] = ok
    return cache[h.qname]


def _helper_norm(ctx: Ctx, w, h, call: ast.Call):
    """normaliser of a helper read in place: parameters bound to the caller's normalised arguments"""
    a = h.node.args
    params = [x.arg for x in list(a.posonlyargs) + list(a.args)]
    if params and params[0] in ("self", "cls"):
        params = params[1:]
    subst = {}
    for i, x in enumerate(call.args):
        if i < len(params) and not isinstance(x, ast.Starred):
            subst[params[i]] = w.nm.expr(x, at=None)
    for k in call.keywords:
        if k.arg:
            subst[k.arg] = w.nm.expr(k.value, at=None)
    return _Norm(ctx, h, subst)


def _new_helper(ctx: Ctx, g, call: ast.Call):
    """the private method a `self._x(...)` call runs, when it is not a function of the pinned inventory (an extracted method, possibly shared by several callers)"""
    from sa.reinline import inventory
    fn = call.func
    if not (isinstance(fn, ast.Attribute) and isinstance(fn.value, ast.Name) and fn.value.id == getattr(g, "self_name", "self") and fn.attr.startswith("_")
            and not fn.attr.endswith("__")) or g.cls is None:
        return None
    h = g.cls.lookup(fn.attr)
    if h is None or h.cls is None or isinstance(h.node, ast.Lambda):
        return None
    name = fn.attr
    if "%s.%s" % (h.cls.name, h.name) in inventory().get(h.module.name, []) and not _single_caller(ctx, h):
        return None
    return h


_ORDER: Dict[str, List] = {}      # spec -> order pairs of the last function_shapes() call for it
_VALUES: Dict[str, Dict[str, List[str]]] = {}      # spec -> shape -> the values passed / stored / returned at its sites


def function_shapes(ctx: Ctx, spec: str):
    """shape -> (generalised atoms, diagram text, raw atoms, diagram, statements) for one function of the table, or None when the function is gone"""
    from rules.reachcond import Walker, shape_functions
    fs = _functions_of(ctx, spec)
    if not fs:
        return None
    f = fs[0]
    w = Walker(ctx, f, _norm(ctx, f), _sites_of, helper_fn=lambda g, call: _new_helper(ctx, g, call), norm_fn=None)
    w.norm_fn = lambda h, call: _helper_norm(ctx, w, h, call)
    w.run()
    _ORDER[spec] = None
    from rules.reachcond import order_pairs
    _ORDER[spec] = order_pairs(w)
    vals = dict(getattr(w, "values", {}))
    a_ = f.node.args
    pos_ = list(a_.posonlyargs) + list(a_.args)
    dflt = ["#%d=%s" % (len(pos_) - len(a_.defaults) + i, ast.unparse(d)) for i, d in enumerate(a_.defaults)] + \
           ["kw%d=%s" % (i, ast.unparse(d)) for i, (k, d) in enumerate(zip(a_.kwonlyargs, a_.kw_defaults)) if d is not None]
    if dflt:
        vals["<defaults>"] = dflt
    decs = [ast.unparse(d) for d in f.node.decorator_list]
    if decs:
        vals["<decorators>"] = decs        # `@lock`, `@strict`, `@property`: a dropped decorator changes every call of the function
    its = []
    for lp in [x for x in ctx.own_nodes(f) if isinstance(x, (ast.For, ast.AsyncFor))]:
        # only loops over shared state (`self.<...>`): whether they walk the live collection or a snapshot of it (`tuple(self._queue)`) is the point
        it, wrap = lp.iter, ""
        if isinstance(it, ast.Call) and isinstance(it.func, ast.Name) and it.func.id in ("tuple", "list", "set", "sorted", "reversed", "frozenset") and len(it.args) == 1:
            it, wrap = it.args[0], it.func.id
        if isinstance(it, ast.Call) and isinstance(it.func, ast.Attribute) and it.func.attr == "copy" and not it.args:
            it, wrap = it.func.value, "copy"
        base = it
        while isinstance(base, ast.Attribute):
            base = base.value
        if isinstance(it, ast.Attribute) and isinstance(base, ast.Name) and base.id == "self":
            its.append("%s(%s)" % (wrap or "live", ast.unparse(it)))
        elif isinstance(it, (ast.Tuple, ast.List)) and it.elts and all(isinstance(e, ast.Constant) and isinstance(e.value, str) for e in it.elts):
            vals.setdefault("<field-loops>", []).append("const(%s)" % ", ".join(sorted(repr(e.value) for e in it.elts)))      # the field names a loop goes through
    if its:
        vals["<iterates>"] = its
    _VALUES[spec] = {k: sorted(v) for k, v in vals.items()}
    return f, shape_functions(w)


_TOKEN = re.compile(r"^(SIDE\d+|OTHER\d+|LOCAL|REMOTE)$")


def _params(g):
    a = g.node.args
    pos = [x.arg for x in list(a.posonlyargs) + list(a.args) + list(a.kwonlyargs)]
    return tuple(pos[1:] if pos and pos[0] in ("self", "cls") and g.cls is not None else pos)


def _bound(ctx: Ctx, f, c0: ast.Call):
    """positional parameter names of the callee, found by the method's name (all analysed functions of that name agree on them, or the receiver's class decides);
    None when the callee is not known - the shape then lists what the call site itself shows"""
    fn = c0.func
    name = fn.attr if isinstance(fn, ast.Attribute) else (fn.id if isinstance(fn, ast.Name) else None)
    if name is None:
        return None
    idx = ctx.__dict__.setdefault("_decision_by_name", None)
    if idx is None:
        idx = ctx.__dict__["_decision_by_name"] = {}
        for g in ctx.prog.functions.values():
            if isinstance(g.node, ast.Lambda):
                continue
            idx.setdefault(g.name, []).append(g)
    cands = idx.get(name, [])
    if isinstance(fn, ast.Attribute) and len({_params(g) for g in cands}) > 1:
        # several signatures under this name: the receiver's inferred class decides
        try:
            ty = ctx.res.type_of(f, fn.value)
        except Exception:
            ty = frozenset()
        classes = {t[1].split(".")[-1] for t in ty if t[0] == "inst"}
        pick = [g for g in cands if g.cls is not None and (g.cls.name in classes or any(ctx.is_subclass_name(c, g.cls.name) for c in classes))]
        if pick:
            cands = pick

    sigs = {_params(g) for g in cands}
    if len(sigs) == 1:
        _DEFAULTS[id(c0)] = _defaults_of(cands[0])
        return list(sigs.pop())
    return None


_DEFAULTS: Dict[int, Dict[str, str]] = {}      # id(call) -> {parameter: text of its default} of the resolved callee


def _defaults_of(g) -> Dict[str, str]:
    a = g.node.args
    pos = list(a.posonlyargs) + list(a.args)
    out = {}
    for p, d in zip(pos[len(pos) - len(a.defaults):], a.defaults):
        out[p.arg] = ast.unparse(d)
    for p, d in zip(a.kwonlyargs, a.kw_defaults):
        if d is not None:
            out[p.arg] = ast.unparse(d)
    return out


def _defaults_by_name(ctx, name):
    """{keyword: default text} on which every analysed function called `name` agrees"""
    if name is None:
        return {}
    cache = ctx.__dict__.setdefault("_decision_defaults", {})
    if name not in cache:
        cands = [g for g in ctx.prog.functions.values() if not isinstance(g.node, ast.Lambda) and g.name == name]
        maps = [_defaults_of(g) for g in cands]
        out = {}
        if maps:
            for k in set.intersection(*[set(m) for m in maps]):
                if len({m[k] for m in maps}) == 1:
                    out[k] = maps[0][k]
        cache[name] = out
    return cache[name]


def _is_default(c0: ast.Call, pos, i_or_name, v) -> bool:
    """the argument is a constant equal to the callee's default for that parameter: passing it or leaving it out is the same call"""
    d = _DEFAULTS.get(id(c0))
    if not d or pos is None or not isinstance(v, ast.Constant):
        return False
    name = pos[i_or_name] if isinstance(i_or_name, int) and i_or_name < len(pos) else i_or_name
    return isinstance(name, str) and name in d and d[name] == ast.unparse(v)


def _call_shape(c: ast.Call, nm: "_Norm" = None, ctx: Ctx = None, f=None) -> str:
    """receiver kind, method, which parameters are passed and the side / constant arguments: `self.update_entry(sync, synced, exists=True, oid=o)` is
    `self.update_entry(ent, side=OTHER0, exists=True, oid)`"""
    c0 = c
    pos = _bound(ctx, f, c) if f is not None else None
    if nm is not None:
        c = nm.expr(c)
    if not isinstance(c, ast.Call):
        return ast.unparse(c)
    fn = c.func

    def val(v):
        if isinstance(v, ast.Name) and _TOKEN.match(v.id):
            return "=" + v.id
        if isinstance(v, ast.Constant) and (isinstance(v.value, (bool, type(None))) or (isinstance(v.value, str) and len(v.value) <= 24)):
            return "=" + repr(v.value)
        return ""
    if pos is not None and not any(isinstance(x, ast.Starred) for x in c.args) and len(c.args) <= len(pos) and all(k.arg in pos for k in c.keywords) and not any(k.arg is None for k in c.keywords):
        # parameters by position in the callee's signature (names may be renamed); a keyword the callee does not declare (**kwargs) keeps its name
        sides = sorted(["#%d%s" % (i, val(x)) for i, x in enumerate(c.args) if not _is_default(c0, pos, i, c0.args[i])] +
                       ["%s%s" % ("#%d" % pos.index(k.arg) if k.arg in pos else k.arg, val(k.value)) for k, k0 in zip(c.keywords, c0.keywords) if not _is_default(c0, pos, k.arg, k0.value)])
    else:
        sides = [a.id for a in c.args if isinstance(a, ast.Name) and _TOKEN.match(a.id)] + \
                sorted("%s%s" % (k.arg, val(k.value)) for k in c.keywords if k.arg)
    if isinstance(fn, ast.Attribute):
        recv = ast.unparse(fn.value)
        sub = "[%s]" % fn.value.slice.id if isinstance(fn.value, ast.Subscript) and isinstance(fn.value.slice, ast.Name) and _TOKEN.match(fn.value.slice.id) else ""
        recv = "self" if recv == "self" else ("self.state" if recv == "self.state" else ("self.providers" + (sub or "[$s]") if recv.startswith("self.providers[") else
               ("self._nmgr" if recv in ("self._nmgr", "self.nmgr") else "$o" + sub)))
        return "%s.%s(%s)" % (recv, fn.attr, ", ".join(sides))
    return "%s(%s)" % (ast.unparse(fn), ", ".join(sides))


def _constant_like(v) -> bool:
    if isinstance(v, ast.Constant):
        return True
    if isinstance(v, ast.Name):
        return v.id.isupper()
    if isinstance(v, ast.Attribute):
        return v.attr.isupper() and isinstance(v.value, ast.Name) and v.value.id[:1].isupper()
    if isinstance(v, ast.Tuple):
        return all(_constant_like(e) for e in v.elts)
    return False


def _filters(v: ast.AST):
    """the `if` conditions of a comprehension that builds the value (directly or under list() / set() / any() / all() / sorted())"""
    if isinstance(v, ast.Call) and isinstance(v.func, ast.Name) and v.func.id in ("list", "set", "any", "all", "sorted", "tuple") and len(v.args) >= 1:
        v = v.args[0]
    if isinstance(v, (ast.ListComp, ast.SetComp, ast.GeneratorExp)):
        return [c for g in v.generators for c in g.ifs]
    return []


def _filter_facts(v: ast.AST):
    """KEPT(cond) facts of a filtering comprehension, its own variables written ELEM"""
    comp = v.args[0] if isinstance(v, ast.Call) else v
    names = set()
    for g in comp.generators:
        names |= {x.id for x in ast.walk(g.target) if isinstance(x, ast.Name)}

    class R(ast.NodeTransformer):
        def visit_Name(self, n):
            return ast.copy_location(ast.Name(id="ELEM", ctx=n.ctx), n) if n.id in names else n
    out = set()
    for cnd in _filters(v):
        c2 = R().visit(ast.parse(ast.unparse(cnd), mode="eval").body)
        for (t, p) in literals(c2, True):
            out.add(("KEPT(%s)" % t, p))
    return out


def table_path():
    return os.path.join(os.path.dirname(os.path.abspath(__file__)), "decisions.json")


def build_table(ctx: Ctx):
    t: Dict[str, Dict] = {}
    for spec in DECISION_FUNCTIONS:
        r = function_shapes(ctx, spec)
        if r is None:
            continue
        if _ORDER.get(spec):
            t["%s|<order>" % spec] = {"atoms": [], "when": "1", "pairs": [list(p) for p in _ORDER[spec]], "order": True}
        if _VALUES.get(spec):
            t["%s|<values>" % spec] = {"atoms": [], "when": "1", "values": _VALUES[spec], "order": True}
        if not any(gen for (gen, _t, _r, _d, _s) in r[1].values()):
            # a function without a guard decides nothing: which calls it makes is not pinned here (wrappers are inlined, renamed, re-routed freely);
            # what is pinned is that it HAS no guard - an action that becomes conditional is a decision that was not there
            if r[1]:
                t["%s|*" % spec] = {"atoms": [], "when": "1", "plain": True}
            continue
        helper = _single_caller(ctx, r[0])
        for shape, (gen, dtext, _raw, _d, _sts) in r[1].items():
            t["%s|%s" % (spec, shape)] = {"atoms": gen, "when": dtext, "n": len(_sts)}
            if helper:
                t["%s|%s" % (spec, shape)]["helper"] = True      # also read as part of its only caller: inlining it there is not a change
    return t


def table_sites(prop: str = None, shapes: str = None) -> int:
    """number of (function, shape) reach conditions of the committed table that a rule must decide (the tolerant bookkeeping shapes are not counted)"""
    table = json.load(open(table_path()))
    fns = set(PROPERTY_FUNCTIONS.get(prop, [])) if prop else None
    return sum(1 for k, v in table.items() if (fns is None or k.split("|")[0] in fns) and not k.split("|", 1)[1].startswith(TOLERANT)
               and (shapes is None or re.search(shapes, k.split("|", 1)[1])) and not v.get("helper") and not v.get("plain") and not v.get("order"))


def _state(atoms, asg) -> str:
    return ", ".join("%s%s" % ("" if v else "not ", atoms[i]) for i, v in sorted(asg.items())) or "any state"


def decision_table(ctx: Ctx, rep: Report, rid: str, functions=None, shapes: str = None):
    """For every function of the table and every action shape: the set of states (over the guard atoms) in which the function takes that action is the recorded one.
    `functions`: a property id (its functions), a list of function specs, or None for the whole table; `shapes`: a regular expression that selects action shapes."""
    from rules.reachcond import parse_diagram, difference
    table = json.load(open(table_path()))
    if isinstance(functions, str):
        # the property's own functions, and every function of the table that one of the property's other rules anchors an instance in: the mechanisms the
        # property's rules read live there, so when such a function acts in other states than recorded, this property's reading of it is no longer current
        own = list(PROPERTY_FUNCTIONS.get(functions, [])) + [q for q in EXTRA_FUNCTIONS.get(functions, []) if q not in PROPERTY_FUNCTIONS.get(functions, [])]
        specs_in_table = {k.split("|")[0] for k in table}
        for i in list(rep.instances):
            q = i.func
            if q and q in ctx.prog.functions:
                g = ctx.prog.functions[q]
                if g.cls is not None:
                    spec = "%s.%s" % (g.cls.name, g.name)
                    if spec in specs_in_table and spec not in own:
                        own.append(spec)
        functions = own
    if shapes is not None:
        table = {k: v for k, v in table.items() if re.search(shapes, k.split("|", 1)[1])}
    specs = DECISION_FUNCTIONS if functions is None else functions
    n = want = 0
    for spec in specs:
        keys = {k: v for k, v in table.items() if k.split("|")[0] == spec}
        values_old = keys.pop("%s|<values>" % spec, None)
        if values_old is not None and shapes is None:
            r0 = function_shapes(ctx, spec)
            if r0 is not None:
                f0 = r0[0]
                now = _VALUES.get(spec) or {}
                bad = []
                for sh, old_vals in sorted(values_old["values"].items()):
                    cur_vals = now.get(sh)
                    if sh == "<field-loops>" and not set(old_vals) <= set(cur_vals or []):
                        bad.append((sh, [v for v in old_vals if v not in (cur_vals or [])], [v for v in (cur_vals or []) if v not in old_vals]))
                        continue
                    if sh == "<field-loops>":
                        continue
                    if sh == "<decorators>" and sorted(cur_vals or []) != sorted(old_vals):
                        bad.append((sh, [v for v in old_vals if v not in (cur_vals or [])], [v for v in (cur_vals or []) if v not in old_vals]))
                        continue
                    if cur_vals is None or len(cur_vals) != len(old_vals):
                        continue        # the sites of this shape were merged / split / moved: not comparable value by value
                    if any(("DEF(" in v and " | " in v) or "<?>" in v or "ELEM" in v or "DEF('in" in v or 'DEF("in' in v for v in list(cur_vals) + list(old_vals)):
                        continue        # a value that is a local with several definitions is described by how the tails are written: not comparable
                    if sorted(cur_vals) != sorted(old_vals):
                        gone = [v for v in old_vals if v not in cur_vals]
                        new_ = [v for v in cur_vals if v not in old_vals]
                        bad.append((sh, gone, new_))
                if bad:
                    sh, gone, new_ = bad[0]
                    rep.violation(rid, "%s|<values>" % spec, "%s:%d" % (f0.module.relpath, f0.node.lineno), "%s: the action `%s` now carries %s where the decision table records %s "
                                  "(%d action(s) of this function changed what they pass / store / return)" % (f0.name, sh, new_[:2], gone[:2], len(bad)), func=f0.qname)
                else:
                    rep.ok(rid, "%s|<values>" % spec, "%s:%d" % (f0.module.relpath, f0.node.lineno), "%d action shapes pass / store / return the recorded values"
                           % len(values_old["values"]), nontrivial=True, func=f0.qname)
        order_old = keys.pop("%s|<order>" % spec, None)
        if order_old is not None and shapes is None:
            r0 = function_shapes(ctx, spec)
            if r0 is not None:
                now = {tuple(p) for p in (_ORDER.get(spec) or [])}
                flipped = [p for p in order_old["pairs"] if (p[1], p[0]) in now]
                f0 = r0[0]
                if flipped:
                    a, b = flipped[0]
                    rep.violation(rid, "%s|<order>" % spec, "%s:%d" % (f0.module.relpath, f0.node.lineno), "%s used to do `%s` before `%s`; now `%s` comes first (%d pair(s) of "
                                  "actions changed places) - whoever observes the state between the two sees the other one" % (f0.name, a, b, b, len(flipped)), func=f0.qname)
                else:
                    rep.ok(rid, "%s|<order>" % spec, "%s:%d" % (f0.module.relpath, f0.node.lineno), "%d ordered pairs of actions keep their order" % len(order_old["pairs"]),
                           nontrivial=True, func=f0.qname)
        want += sum(1 for k in keys if not k.split("|", 1)[1].startswith(TOLERANT))
        if not keys:
            continue
        r = function_shapes(ctx, spec)
        if r is None:
            if keys and not all(v.get("helper") or v.get("plain") for v in keys.values()):
                rep.violation(rid, spec, "-", "the function %s of the decision table is gone from the current tree (%d action shapes)" % (spec, len(keys)))
            else:
                want -= sum(1 for k in keys if not k.split("|", 1)[1].startswith(TOLERANT))      # a single-caller helper inlined into its caller: decided there
            continue
        f, found = r
        if any(v.get("plain") for v in keys.values()):
            cond = sorted((sh, v) for sh, v in found.items() if v[0] and not sh.startswith(TOLERANT))
            if shapes is None:
                want -= 1
                if cond:
                    sh, v = cond[0]
                    rep.violation(rid, "%s|*" % spec, ctx.line(f, v[4][0]), "%s had no guard; now `%s` is only taken when %s over %s - some callers' requests are silently not carried out"
                                  % (f.name, sh, v[1], v[0]), func=f.qname)
                else:
                    rep.ok(rid, "%s|*" % spec, "%s:%d" % (f.module.relpath, f.node.lineno), "no guard, as recorded", nontrivial=False, func=f.qname)
            continue
        if shapes is not None:
            found = {k: v for k, v in found.items() if re.search(shapes, k)}
        for shape in sorted(set(found) | {k.split("|", 1)[1] for k in keys}):
            key = "%s|%s" % (spec, shape)
            cur, old = found.get(shape), keys.get(key)
            tolerant = shape.startswith(TOLERANT)
            if cur is None or old is None:
                if tolerant:
                    continue        # the search was rewritten (flag loop <-> any(), comprehension <-> loop): its bookkeeping is not comparable
                if cur is None:
                    rep.violation(rid, key, "%s:%d" % (f.module.relpath, f.node.lineno), "%s no longer takes the action `%s` anywhere (the table has it when %s)"
                                  % (f.name, shape, old["when"] if old["atoms"] else "always"), func=f.qname)
                else:
                    st = cur[4][0]
                    rep.violation(rid, key, ctx.line(f, st), "`%s` in %s is an action the decision table does not have for this function (shape `%s`, taken when: %s over %s)"
                                  % (ast.unparse(st).split("\n")[0][:70], f.name, shape, cur[1], cur[0]), func=f.qname)
                continue
            gen, dtext, raw, d, sts = cur
            if gen == old["atoms"] and dtext == old["when"]:
                if not tolerant:
                    n += 1
                rep.ok(rid, key, ctx.line(f, sts[0]), "taken exactly when %s over %s" % (dtext, gen or "no guard"), nontrivial=bool(gen), func=f.qname)
                continue
            if tolerant and shape != "break" and (len(gen) != len(old["atoms"]) or len(sts) != old.get("n", len(sts))):
                continue        # bookkeeping shapes are compared only between two spellings with the same number of such statements
            if gen == old["atoms"]:
                asg, val = difference(d, parse_diagram(old["when"]), len(gen))
                why = "in the state [%s] the action is %s taken, the table says the opposite" % (_state(raw, asg), "now" if val else "no longer")
            else:
                more = [a for a in gen if a not in old["atoms"]]
                less = [a for a in old["atoms"] if a not in gen]
                why = "it now depends on %s and no longer on %s (table: %s over %s; now: %s over %s)" % (more or "nothing new", less or "everything it did", old["when"],
                                                                                                       old["atoms"], dtext, gen)
            rep.violation(rid, key, ctx.line(f, sts[0]), "%s takes the action `%s` in a different set of states than the decision table records: %s" % (f.name, shape, why),
                          func=f.qname)
    if n * 2 < want or not want:
        raise AnalysisError("only %d of the table's %d reach conditions matched - the decision functions were not found" % (n, want))
