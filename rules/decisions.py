"""The decision table of the sync state machine (DESIGN.md 7.12).

For the functions that decide what happens to an entry, every *decision site* - a `return`, a call of a handler / state method, a store to the entry's
priority / ignore status - is recorded together with the path condition under which it is reached (guard facts, compound literals in negation normal form,
boolean locals expanded into their single definition, local names generalised to metavariables).  `rules/decisions.json` (written by
`tools/gen_decisions.py`, read through before it was committed) is today's table; the rule compares, per (function, site shape), the multiset of path
conditions on the current tree with the table's.

What this is: a detector for any change of WHEN the state machine takes which action - a negated test, a swapped and/or, a dropped or added conjunct, a
wrong side in a guard - in code that no specific rule was written for.  What it is not: a statement that today's conditions are right, nor a check of
the actions' arguments (the specific rules do that).  It is insensitive to everything the canonicalisations absorb: operand order, De Morgan forms,
guard clauses vs nested ifs, swapped if/else arms, renamed locals, extracted / hoisted helpers and locals, added logging.
"""
from __future__ import annotations

import ast
import re
import json
import os
from typing import Dict, List

from sa.model import AnalysisError
from sa.ctx import Ctx
from sa.report import Report
from sa.guards import literals

# property -> the functions whose action sites that property's decision-table rule decides
PROPERTY_FUNCTIONS = {
    "C01": ["SyncManager.sync", "SyncManager.pre_sync", "SyncManager.embrace_change", "SyncManager.handle_path_change_or_creation", "SyncManager.create_synced",
            "SyncManager.mkdir_synced", "SyncManager.unsafe_mkdir_synced", "SyncManager.finished", "SyncState.finished", "SyncState.unconditionally_get_no_info",
            "SyncManager.change_count"],
    "C02": ["SyncManager.handle_hash_diff", "SyncManager.handle_split_conflict", "SyncManager.check_disjoint_create", "SyncManager.get_folder_file_conflict",
            "SyncManager._get_parent_conflict", "SyncManager._get_child_conflict", "SyncManager._get_untrashed_peers"],
    "C03": ["SyncManager.handle_rename", "SyncManager.check_rename_is_delete_create", "SyncManager.upload_synced", "SyncManager._create_synced",
            "SyncManager.download_changed", "SyncManager.make_temp_file", "SyncManager.clean_temps", "SyncManager.update_entry"],
    "C04": ["SyncManager.delete_synced", "SyncManager._handle_dir_delete_not_empty", "SyncManager.handle_cloud_file_not_found_error",
            "SyncManager.handle_changed_is_missing", "SyncManager.check_revivify"],
    "C05": ["SyncManager.resolve_conflict", "SyncManager.__resolver_merge_upload", "SyncManager._resolve_rename", "SyncManager.__safe_call_resolver",
            "SyncManager.handle_hash_conflict", "SyncManager.rename_to_fix_conflict", "SyncManager.conflict_rename"],
    "C10": ["SyncManager._sync_one_entry", "SyncManager.do", "SyncManager.handle_file_name_error", "SyncManager.handle_corrupt"],
    "C12": ["SyncManager._validate_provider_roots"],
    "C20": ["SmartSyncManager.pre_sync"],
}
DECISION_FUNCTIONS = [f for p in sorted(PROPERTY_FUNCTIONS) for f in PROPERTY_FUNCTIONS[p]]
# shapes that are bookkeeping of one way of writing a search (a flag set in a loop, a filtering comprehension): decided only while the number of such sites is unchanged
TOLERANT = ("set ", "filter ")


def _generalise(txt: str) -> str:
    from rules.common import generalise
    return generalise(txt)


class _Norm:
    """Per-function normaliser of fact / site expressions: hoisted aliases are replaced by what they stand for, and every side expression by a role token
    (SIDE0 = the function's first side base - its side parameter or loop variable -, OTHER0 = its complement, LOCAL / REMOTE for constants), so that
    `sync[synced]`, `sync[OTHER_SIDE[changed]]`, `sync[other]` with `other = other_side(changed)` all read `sync[OTHER0]` - and `sync[changed]` does not."""

    def __init__(self, ctx: Ctx, f):
        from sa.sides import SideAnalysis, canon as scanon
        self.ctx, self.f = ctx, f
        sa = getattr(ctx, "_decision_sides", None)
        if sa is None:
            sa = ctx._decision_sides = SideAnalysis(ctx)
        self.sa, self.scanon = sa, scanon
        defs: Dict[str, List[ast.AST]] = {}
        for n in ctx.own_nodes(f):
            if isinstance(n, (ast.Assign, ast.AnnAssign)) and getattr(n, "value", None) is not None:
                tg = n.targets[0] if isinstance(n, ast.Assign) else n.target
                if isinstance(tg, ast.Name):
                    defs.setdefault(tg.id, []).append(n.value)
            elif isinstance(n, (ast.For, ast.comprehension)) and isinstance(n.target, ast.Name):
                defs.setdefault(n.target.id, []).append(None)
                defs[n.target.id].append(None)      # loop variables are never single-definition aliases
        self.defs = {k: [x for x in v] for k, v in defs.items()}
        self.locdefs: Dict[str, List] = {}       # local -> what defines it (values, iterables), for locals that are neither parameters nor aliases
        for n in ctx.own_nodes(f):
            if isinstance(n, (ast.Assign, ast.AnnAssign)) and getattr(n, "value", None) is not None:
                tg = n.targets[0] if isinstance(n, ast.Assign) else n.target
                if isinstance(tg, ast.Name):
                    self.locdefs.setdefault(tg.id, []).append(("=", n.value, n))
                elif isinstance(tg, ast.Tuple):
                    for i, e in enumerate(tg.elts):
                        if isinstance(e, ast.Name):
                            self.locdefs.setdefault(e.id, []).append(("=[%d]" % i, n.value, n))
            elif isinstance(n, ast.AugAssign) and isinstance(n.target, ast.Name):
                self.locdefs.setdefault(n.target.id, []).append(("+=", n.value, n))
            elif isinstance(n, (ast.For, ast.comprehension)):
                if isinstance(n.target, ast.Name):
                    self.locdefs.setdefault(n.target.id, []).append(("in", n.iter, n if isinstance(n, ast.For) else None))
                elif isinstance(n.target, ast.Tuple):
                    for i, e in enumerate(n.target.elts):
                        if isinstance(e, ast.Name):
                            self.locdefs.setdefault(e.id, []).append(("in[%d]" % i, n.iter, n if isinstance(n, ast.For) else None))
            elif isinstance(n, ast.ExceptHandler) and n.name:
                self.locdefs.setdefault(n.name, []).append(("except", n.type, None))
            elif isinstance(n, ast.withitem) and isinstance(n.optional_vars, ast.Name):
                self.locdefs.setdefault(n.optional_vars.id, []).append(("with", n.context_expr, None))
        for p in f.all_param_names():
            self.locdefs.pop(p, None)
        self._def_text: Dict[str, str] = {}
        self.alias = {}
        for k, v in defs.items():
            if len(v) == 1 and v[0] is not None and k not in f.all_param_names():
                e0 = v[0]
                if any(isinstance(x, ast.Name) and x.id == k for x in ast.walk(e0)):
                    continue
                if all(isinstance(x, (ast.Attribute, ast.Subscript, ast.Name, ast.Load, ast.Constant)) for x in ast.walk(e0)) and not isinstance(e0, (ast.Name, ast.Constant)) \
                        and not (isinstance(e0, ast.Subscript) and isinstance(e0.value, ast.Name) and e0.value.id == "OTHER_SIDE"):
                    self.alias[k] = e0
        # names used in a side position, and the bases they resolve to
        cand = []
        for n in sorted([x for x in ctx.own_nodes(f) if isinstance(x, (ast.Subscript, ast.Call, ast.BinOp))], key=lambda x: (x.lineno, x.col_offset)):
            e = None
            if isinstance(n, ast.Subscript):
                e = n.slice
            elif isinstance(n, ast.Call) and isinstance(n.func, ast.Name) and n.func.id == "other_side" and len(n.args) == 1:
                e = n.args[0]
            elif isinstance(n, ast.BinOp) and isinstance(n.op, ast.Sub) and isinstance(n.left, ast.Constant) and n.left.value == 1:
                e = n.right
            if isinstance(e, ast.Name) and e.id not in ("LOCAL", "REMOTE") and e.id not in self.alias:
                cand.append(e.id)
        self.side_names = set(cand)
        params = [p for p in f.all_param_names()]
        bases: List[str] = []
        for nm in [p for p in params if p in self.side_names] + cand:
            sd = self.sa.side_expr(f, ast.Name(id=nm, ctx=ast.Load()))
            if sd is not None and not sd[0].startswith("#") and sd[0] not in bases:
                bases.append(sd[0])
        self.bases = bases

    def token(self, e):
        sd = self.scanon(self.sa.side_expr(self.f, e))
        if sd is None:
            return None
        if sd[0] == "#0":
            return "LOCAL"
        if sd[0] == "#1":
            return "REMOTE"
        if sd[0] in self.bases:
            return "%s%d" % ("OTHER" if sd[1] else "SIDE", self.bases.index(sd[0]))
        return None

    def def_text(self, name: str, at=None) -> str:
        """what defines a local where `at` is evaluated (its reaching definitions), as text that does not depend on its name:
        `info` is `= self.providers[OTHER0].info_oid(?a)`"""
        key = (name, id(at))
        if key not in self._def_text:
            from rules.common import generalise
            from sa.ctx import reaching_defs
            entries = self.locdefs[name]
            if at is not None and all(e[2] is not None for e in entries) and len(entries) > 1:
                try:
                    rd, _ = reaching_defs(self.ctx, self.f, at, name)
                except Exception:       # the statement is not in this function's graph (a fact carried over from the caller)
                    rd = []
                live = [e for e in entries if any(e[2] is d for d in rd)]
                if live:
                    entries = live
            out = set()
            for (how, v, _st) in entries:
                if v is None:
                    out.add(how)
                elif isinstance(v, ast.Constant) and isinstance(v.value, bool):
                    out.add("%s FLAG" % how)
                elif isinstance(v, ast.Constant):
                    out.add("%s %r" % (how, v.value))
                elif _is_search(v):
                    out.add("%s FLAG" % how)
                elif isinstance(v, (ast.ListComp, ast.SetComp, ast.DictComp, ast.GeneratorExp, ast.List, ast.Set, ast.Dict, ast.Tuple)) or \
                        (isinstance(v, ast.Call) and isinstance(v.func, ast.Name) and v.func.id in ("list", "set", "dict", "sorted", "tuple", "any", "all")):
                    out.add("%s COLLECTION" % how if not (isinstance(v, ast.Call) and v.func.id in ("any", "all")) else "%s SEARCH" % how)
                else:
                    out.add("%s %s" % (how, generalise(ast.unparse(self.expr(v, defs=False)))))
            self._def_text[key] = " | ".join(sorted(out)).replace("$", "?")     # `$` would be read as a metavariable by the matcher
        return self._def_text[key]

    def expr(self, e: ast.AST, defs: bool = True, at=None) -> ast.AST:
        me = self

        class U(ast.NodeTransformer):
            def _tok(self, n):
                t = me.token(n)
                return ast.copy_location(ast.Name(id=t, ctx=ast.Load()), n) if t else None

            def visit_Name(self, n):
                if isinstance(n.ctx, ast.Load) and n.id in me.alias:
                    return ast.copy_location(self.visit(ast.parse(ast.unparse(me.alias[n.id]), mode="eval").body), n)
                if n.id in me.side_names:
                    t = self._tok(n)
                    if t is not None:
                        return t
                if defs and isinstance(n.ctx, ast.Load) and n.id in me.locdefs and n.id not in me.side_names:
                    return ast.copy_location(ast.Call(func=ast.Name(id="DEF", ctx=ast.Load()), args=[ast.Constant(value=me.def_text(n.id, at))], keywords=[]), n)
                return n

            def visit_Subscript(self, n):
                if isinstance(n.value, ast.Name) and n.value.id == "OTHER_SIDE":
                    return self._tok(n) or self.generic_visit(n)
                return self.generic_visit(n)

            def visit_Call(self, c):
                if isinstance(c.func, ast.Name) and c.func.id == "other_side" and len(c.args) == 1:
                    return self._tok(c) or self.generic_visit(c)
                return self.generic_visit(c)

            def visit_BinOp(self, b):
                if isinstance(b.op, ast.Sub) and isinstance(b.left, ast.Constant) and b.left.value == 1:
                    return self._tok(b) or self.generic_visit(b)
                return self.generic_visit(b)
        return U().visit(ast.parse(ast.unparse(e), mode="eval").body)

    def txt(self, txt: str, at=None) -> str:
        try:
            e = ast.parse(txt, mode="eval").body
        except SyntaxError:
            return txt
        return ast.unparse(self.expr(e, at=at))


def _is_search(v) -> bool:
    if isinstance(v, ast.UnaryOp) and isinstance(v.op, ast.Not):
        v = v.operand
    return isinstance(v, ast.Call) and isinstance(v.func, ast.Name) and v.func.id in ("any", "all")


def _norm(ctx: Ctx, f) -> _Norm:
    cache = ctx.__dict__.setdefault("_decision_norms", {})
    if f.qname not in cache:
        cache[f.qname] = _Norm(ctx, f)
    return cache[f.qname]


def expand_facts(ctx: Ctx, f, facts, depth: int = 3, at=None):
    """facts with boolean locals replaced by the literals of their (single) definition: `x = a and not b; if x:` gives (a, T), (b, F); then normalised (_Norm)."""
    nm = _norm(ctx, f)
    defs = nm.defs
    out = set(facts)
    for _ in range(depth):
        new = set()
        changed = False
        for (txt, pol) in out:
            try:
                e = ast.parse(txt, mode="eval").body
            except SyntaxError:
                new.add((txt, pol))
                continue
            if isinstance(e, ast.Name) and len(defs.get(e.id, [])) == 1 and isinstance(defs[e.id][0], (ast.BoolOp, ast.Compare, ast.UnaryOp)) \
                    and not any(isinstance(x, (ast.Call, ast.Await, ast.Yield)) and not _pure_call(x) for x in ast.walk(defs[e.id][0])):
                new |= literals(defs[e.id][0], pol)
                changed = True
            else:
                new.add((txt, pol))
        out = new
        if not changed:
            break
    return {(nm.txt(t, at), p) for (t, p) in out}


def _pure_call(c) -> bool:
    from sa.defassign import _PURE
    nm = c.func.attr if isinstance(c.func, ast.Attribute) else (c.func.id if isinstance(c.func, ast.Name) else "")
    return bool(_PURE.match(nm))


def _is_log(call: ast.Call) -> bool:
    f = call.func
    while isinstance(f, (ast.Attribute, ast.Call)):
        f = f.value if isinstance(f, ast.Attribute) else f.func
    return isinstance(f, ast.Name) and f.id in ("log", "logging", "print")


def decision_sites(ctx: Ctx):
    """(group key, function, node, facts) for every decision site of DECISION_FUNCTIONS."""
    out = []
    for spec in DECISION_FUNCTIONS:
        try:
            f0 = ctx.prog.func(spec)
        except AnalysisError:
            continue
        from sa.util import with_private_helpers
        from sa.reinline import inventory
        known = set(inventory().get(f0.module.name, []))
        fs = [f0] + [h for h in with_private_helpers(ctx, f0)[1:] if h.cls is None or "%s.%s" % (h.cls.name, h.name) not in known]
        for f in fs:
            g = ctx.cfg(f)
            for n in g.nodes:
                if n.kind != "stmt" or n.ast is None:
                    continue
                st = n.ast
                shapes = []
                extra = set()
                if isinstance(st, ast.Return):
                    v = st.value
                    if v is None or (isinstance(v, ast.Constant) and v.value is None):
                        pass        # `return` / `return None` is what falling off the end does: not a site (guard-clause style would add and remove them)
                    elif isinstance(v, (ast.Constant, ast.Name)) or (isinstance(v, ast.Tuple) and all(isinstance(e, (ast.Constant, ast.Name)) for e in v.elts)):
                        shapes.append("return " + (_generalise(ast.unparse(v)) if v is not None and not isinstance(v, ast.Constant) else ast.unparse(v) if v is not None else "None"))
                    elif isinstance(v, ast.Call):
                        shapes.append("return " + _call_shape(v, _norm(ctx, f), ctx, f))
                    else:
                        shapes.append("return <expr>")
                elif isinstance(st, ast.Expr) and isinstance(st.value, ast.Call) and not _is_log(st.value):
                    if not (isinstance(st.value.func, ast.Attribute) and st.value.func.attr in ("append", "extend", "add", "insert", "update", "sort", "remove", "discard", "pop")
                            and not ast.unparse(st.value.func.value).startswith("self")):
                        shapes.append(_call_shape(st.value, _norm(ctx, f), ctx, f))
                elif isinstance(st, ast.Continue):
                    shapes.append("continue")
                elif isinstance(st, ast.Raise):
                    shapes.append("raise " + (ast.unparse(st.exc.func) if isinstance(st.exc, ast.Call) else (ast.unparse(st.exc) if st.exc is not None else "")))
                elif isinstance(st, (ast.Assign, ast.AugAssign)):
                    tg = st.targets[0] if isinstance(st, ast.Assign) else st.target
                    if isinstance(tg, ast.Attribute) and tg.attr in ("priority", "ignored", "exists", "changed", "sync_path", "sync_hash", "oid", "path", "hash"):
                        shapes.append("store %s.%s" % (_generalise(ast.unparse(_norm(ctx, f).expr(tg.value))), tg.attr))
                    elif isinstance(tg, ast.Subscript) and isinstance(st, ast.Assign) and isinstance(st.value, ast.Subscript):
                        shapes.append("graft %s" % _generalise("(%s, %s)" % (ast.unparse(_norm(ctx, f).expr(tg)), ast.unparse(_norm(ctx, f).expr(st.value)))))
                    elif isinstance(st, ast.Assign) and isinstance(st.value, ast.Call) and not _is_log(st.value) and isinstance(st.value.func, ast.Attribute) \
                            and ast.unparse(st.value.func.value).startswith("self"):
                        shapes.append("call " + _call_shape(st.value, _norm(ctx, f), ctx, f))
                    elif isinstance(tg, ast.Name) and isinstance(st, ast.Assign) and isinstance(st.value, ast.Constant) and isinstance(st.value.value, (bool, type(None))):
                        shapes.append("set $a = %r" % (st.value.value,))
                    elif isinstance(tg, ast.Name) and isinstance(st, ast.Assign) and isinstance(st.value, ast.Name):
                        shapes.append("set $a = $b")
                    elif isinstance(tg, ast.Name) and isinstance(st, ast.AugAssign) and isinstance(st.value, ast.Constant):
                        shapes.append("set $a %s= %r" % (type(st.op).__name__, st.value.value))
                    elif isinstance(tg, ast.Name) and isinstance(st, ast.Assign) and _filters(st.value):
                        shapes.append("filter $a")
                        extra = {("KEPT(%s)" % t, p) for cnd in _filters(st.value) for (t, p) in literals(cnd, True)}
                # `x.a = p if c else q` is `if c: x.a = p` / `else: x.a = q`
                arms = [extra]
                if isinstance(st, ast.Assign) and isinstance(st.value, ast.IfExp) and shapes and shapes[0].startswith("store "):
                    arms = [extra | literals(st.value.test, True), extra | literals(st.value.test, False)]
                for sh in shapes:
                    if not ctx.facts(f).reachable(n):
                        continue
                    for arm in arms:
                        facts = expand_facts(ctx, f, set(ctx.facts(f).facts(n) if f is f0 else ctx.facts_inlined(f, st)) | arm | _handler_facts(f, st), at=st)
                        out.append(("%s|%s" % (spec, sh), f, st, _conjunctive(facts)))
    return out


_TOKEN = re.compile(r"^(SIDE\d+|OTHER\d+|LOCAL|REMOTE)$")


def _bound(ctx: Ctx, f, c0: ast.Call):
    """parameter names the call's arguments bind in the callee (positional or keyword alike), when the callee is resolved"""
    site = ctx.site_of(f, c0, "call") if ctx is not None else None
    cal = (site.under or site.over) if site is not None else []
    if not cal:
        return None
    cal = sorted(cal, key=lambda g: (not g.qname.endswith("Provider.%s" % g.name), g.qname))[0]
    a = cal.node.args
    pos = [x.arg for x in list(a.posonlyargs) + list(a.args) + list(a.kwonlyargs)]
    if pos and pos[0] in ("self", "cls"):
        pos = pos[1:]
    return pos


def _call_shape(c: ast.Call, nm: "_Norm" = None, ctx: Ctx = None, f=None) -> str:
    """receiver kind, method, which parameters are passed and the side / constant arguments: `self.update_entry(sync, synced, exists=True, oid=o)` is
    `self.update_entry(ent, side=OTHER0, exists=True, oid)`"""
    pos = _bound(ctx, f, c) if f is not None else None
    if nm is not None:
        c = nm.expr(c)
    fn = c.func

    def val(v):
        if isinstance(v, ast.Name) and _TOKEN.match(v.id):
            return "=" + v.id
        if isinstance(v, ast.Constant) and isinstance(v.value, (bool, type(None))):
            return "=" + repr(v.value)
        return ""
    if pos is not None and not any(isinstance(x, ast.Starred) for x in c.args) and len(c.args) <= len(pos) and all(k.arg in pos for k in c.keywords) and not any(k.arg is None for k in c.keywords):
        # parameters by position in the callee's signature (names may be renamed); a keyword the callee does not declare (**kwargs) keeps its name
        sides = sorted(["#%d%s" % (i, val(x)) for i, x in enumerate(c.args)] + ["%s%s" % ("#%d" % pos.index(k.arg) if k.arg in pos else k.arg, val(k.value)) for k in c.keywords])
    else:
        sides = [a.id for a in c.args if isinstance(a, ast.Name) and _TOKEN.match(a.id)] + \
                sorted("%s%s" % (k.arg, val(k.value)) for k in c.keywords if k.arg)
    if isinstance(fn, ast.Attribute):
        recv = ast.unparse(fn.value)
        sub = "[%s]" % fn.value.slice.id if isinstance(fn.value, ast.Subscript) and isinstance(fn.value.slice, ast.Name) and _TOKEN.match(fn.value.slice.id) else ""
        recv = "self" if recv == "self" else ("self.state" if recv == "self.state" else ("self.providers" + (sub or "[$s]") if recv.startswith("self.providers[") else
               ("self._nmgr" if recv in ("self._nmgr", "self.nmgr") else "$o" + sub)))
        return "%s.%s(%s)" % (recv, fn.attr, ", ".join(sides))
    return "%s(%s)" % (ast.unparse(fn), ", ".join(sides))


def _conjunctive(facts):
    """facts with the disjunctive ones rewritten as `ANY(d1, d2, ...)` (disjuncts in a name-independent order) and `X in (a, b)` as the disjunction it is.
    After `if a: if b: return` nothing is known, after `if a and b: return` the literal `not a or not b` is: the comparison (`_same_condition`) therefore
    treats ANY facts as optional and only objects when a site has both an ANY fact the table lacks and lacks one the table has - a changed disjunction."""
    from sa.guards import nnf
    from sa.canon import canon_text
    from rules.common import generalise
    out = set()
    for (t, p) in facts:
        try:
            e = ast.parse(t, mode="eval").body
        except SyntaxError:
            out.add((t, p))
            continue
        if isinstance(e, ast.Compare) and len(e.ops) == 1 and isinstance(e.ops[0], (ast.In, ast.NotIn)) and isinstance(e.comparators[0], (ast.Tuple, ast.List, ast.Set)) \
                and 1 < len(e.comparators[0].elts) <= 4:
            eqs = [canon_text("%s == %s" % (ast.unparse(el), ast.unparse(e.left))) for el in e.comparators[0].elts]
            if isinstance(e.ops[0], ast.In) == p:
                out.add(("ANY(%s)" % ", ".join(sorted(eqs, key=lambda x: (generalise(x), x))), True))
            else:
                for q in eqs:
                    out.add((q, False))
            continue
        if isinstance(e, ast.BoolOp):
            n = nnf(e, p)
            if isinstance(n, ast.BoolOp) and isinstance(n.op, ast.Or):
                ds = [ast.unparse(v) for v in n.values]
                out.add(("ANY(%s)" % ", ".join(sorted(ds, key=lambda x: (generalise(x), x))), True))
                continue
        out.add((t, p))
    return out


def _same_condition(facts, cond):
    """(extra, missing) between a site's facts and a table condition; ANY facts only count when they disagree both ways"""
    from rules.common import _match_condition
    fc = [x for x in facts if not x[0].startswith("ANY(")]
    fd = [x for x in facts if x[0].startswith("ANY(")]
    cc = [x for x in cond if not x[0].startswith("ANY(")]
    cd = [x for x in cond if x[0].startswith("ANY(")]
    extra, missing = _match_condition(fc, cc)
    ex_d, mi_d = _match_condition(fd, cd)
    if ex_d and mi_d:
        extra, missing = list(extra) + list(ex_d), list(missing) + list(mi_d)
    return extra, missing


def _filters(v: ast.AST):
    """the `if` conditions of a comprehension that builds the value (directly or under list() / set() / any() / all() / sorted())"""
    if isinstance(v, ast.Call) and isinstance(v.func, ast.Name) and v.func.id in ("list", "set", "any", "all", "sorted", "tuple") and len(v.args) >= 1:
        v = v.args[0]
    if isinstance(v, (ast.ListComp, ast.SetComp, ast.GeneratorExp)):
        return [c for g in v.generators for c in g.ifs]
    return []


def _handler_facts(f, st):
    """(`except <types>`, True) for every handler the statement is inside of"""
    cache = f.__dict__.setdefault("_decision_handlers", None) if hasattr(f, "__dict__") else None
    out = set()
    for h in ast.walk(f.node):
        if isinstance(h, ast.ExceptHandler) and any(x is st for b in h.body for x in ast.walk(b)):
            out.add(("EXCEPT(%r)" % (ast.unparse(h.type) if h.type is not None else "BaseException"), True))
    return out


def table_path():
    return os.path.join(os.path.dirname(os.path.abspath(__file__)), "decisions.json")


def build_table(ctx: Ctx):
    from rules.common import generalise
    t: Dict[str, List] = {}
    for key, f, st, facts in decision_sites(ctx):
        t.setdefault(key, []).append(sorted([generalise(x), p] for (x, p) in facts))
    for k in t:
        t[k].sort()
    return t


def table_sites(prop: str) -> int:
    """number of sites of the committed table that the property's rule must decide (the tolerant bookkeeping shapes are not counted)"""
    table = json.load(open(table_path()))
    fns = set(PROPERTY_FUNCTIONS[prop])
    return sum(len(v) for k, v in table.items() if k.split("|")[0] in fns and not k.split("|", 1)[1].startswith(TOLERANT))


def decision_table(ctx: Ctx, rep: Report, rid: str, functions=None):
    """Every decision site of the state machine is reached under one of the path conditions the table records for (function, site shape)."""
    if isinstance(functions, str):
        functions = PROPERTY_FUNCTIONS[functions]
    from rules.common import _match_condition
    table = json.load(open(table_path()))
    groups: Dict[str, List] = {}
    for key, f, st, facts in decision_sites(ctx):
        if functions is not None and key.split("|")[0] not in functions:
            continue
        groups.setdefault(key, []).append((f, st, facts))
    n = 0
    for key in sorted(set(groups) | {k for k in table if functions is None or k.split("|")[0] in functions}):
        sites = groups.get(key, [])
        conds = [[(t, p) for (t, p) in c] for c in table.get(key, [])]
        if key.split("|", 1)[1].startswith(TOLERANT) and len(sites) != len(conds):
            continue        # the search was rewritten (flag loop <-> any(), comprehension <-> loop): its bookkeeping sites are not comparable
        if not conds:
            for (f, st, facts) in sites:
                rep.violation(rid, key, ctx.line(f, st), "`%s` in %s is a decision site the table does not have (reached under %s)" % (ast.unparse(st).split("\n")[0][:60], f.name, sorted(facts)), func=f.qname)
            continue
        if not sites:
            rep.violation(rid, key, "-", "the %d decision site(s) `%s` of the table are gone from the current tree" % (len(conds), key))
            continue
        free = list(range(len(conds)))
        pending = []
        for (f, st, facts) in sites:
            hit = [j for j in free if _same_condition(facts, conds[j]) == ([], [])]
            if hit:
                free.remove(hit[0])
                n += 1
                rep.ok(rid, "%s@%d" % (key, hit[0] + 1), ctx.line(f, st), "under %s" % (sorted(facts) or "no condition"), nontrivial=bool(facts), func=f.qname)
            else:
                pending.append((f, st, facts))
        for (f, st, facts) in pending:
            cand = [conds[j] for j in free] or conds
            best = min(cand, key=lambda w: sum(len(x) for x in _same_condition(facts, w)))
            extra, missing = _same_condition(facts, best)
            rep.violation(rid, key, ctx.line(f, st), "`%s` in %s is reached under %s; the table's closest condition for this site is %s (extra: %s, missing: %s) - the state "
                          "machine takes this action in a different set of states" % (ast.unparse(st).split("\n")[0][:60], f.name, sorted(facts), best, extra, missing), func=f.qname)
        if free and not pending:
            rep.violation(rid, key, sites[0][0], "%d of the %d sites `%s` of the table are gone from the current tree" % (len(free), len(conds), key))
    want = sum(len(v) for k, v in table.items() if functions is None or k.split("|")[0] in functions)
    if n * 2 < want or not want:
        raise AnalysisError("only %d of the table's %d decision sites matched - the decision functions were not found" % (n, want))
