"""C16 - offline-runnable providers honour the provider contract.

Decided (sibling agreement of MockProvider and FileSystemProvider with the abstract Provider): interface coverage (P1);
which operation raises which documented error class, the errno map of the filesystem provider and that every raising OS
call of an API method is inside `with self._api()` (P2); hash_data is built from the same digest producers, under the same
finality switch, as the info / hash_oid hash (P3); every mock mutation emits its event (P4); identity check on connect and
single use per sync (P5); ids change only for path-style providers (P6); queries are read-only (P7); folder rename and
listing select children with the same path-algebra predicate (P8).
Not decided: equivalence with a reference tree over all call sequences; watchdog event delivery.
"""
from __future__ import annotations

import ast

from sa.model import AnalysisError, FuncInfo
from sa.ctx import Ctx, short, stmt_key
from sa.cfg import NORMAL, describe_path
from sa.lockset import LockSet
from sa.report import Report, section
from sa.util import cfg_root, node_has_call, node_stores_attr, has_fact, fact_in
from sa import pat

OFFLINE = ("MockProvider", "FileSystemProvider")
RAISING_OS = {("os", "stat"), ("os", "rename"), ("os", "mkdir"), ("os", "rmdir"), ("os", "unlink"), ("os", "scandir"),
              ("os", "remove"), ("os", "makedirs"), ("os", "replace"), ("shutil", "copyfileobj"), ("shutil", "rmtree"), ("shutil", "move")}
# (operation, documented error class) pairs the engine relies on, per offline provider
MOCK_ERRORS = {
    ("create", "CloudFileExistsError"), ("create", "CloudFileNameError"), ("upload", "CloudFileNotFoundError"), ("upload", "CloudFileExistsError"),
    ("download", "CloudFileNotFoundError"), ("rename", "CloudFileNotFoundError"), ("rename", "CloudFileExistsError"),
    ("mkdir", "CloudFileExistsError"), ("mkdir", "CloudFileNameError"), ("delete", "CloudFileExistsError"), ("listdir", "CloudFileNotFoundError"),
}
FS_ERRORS = {
    ("create", "CloudFileExistsError"), ("upload", "CloudFileNotFoundError"), ("upload", "CloudFileExistsError"),
    ("rename", "CloudFileNotFoundError"), ("rename", "CloudFileExistsError"), ("mkdir", "CloudFileExistsError"),
    ("delete", "CloudFileExistsError"), ("listdir", "CloudFileNotFoundError"),
}
ERRNO_ROWS = {"FileNotFoundError": "CloudFileNotFoundError", "FileExistsError": "CloudFileExistsError", "IsADirectoryError": "CloudFileExistsError",
              "NotADirectoryError": "CloudFileExistsError", "ENOTEMPTY": "CloudFileExistsError", "ENOTDIR": "CloudFileExistsError",
              "ENOSPC": "CloudOutOfSpaceError", "ENAMETOOLONG": "CloudFileNameError"}
QUERIES = ("info_path", "info_oid", "exists_oid", "exists_path", "listdir", "hash_oid", "hash_data", "download")


def _const(e):
    """Evaluate an integer constant expression (1024, 2 * 1024, ...) or return None."""
    try:
        if isinstance(e, ast.Constant) and isinstance(e.value, int):
            return e.value
        if isinstance(e, ast.BinOp) and isinstance(e.op, (ast.Mult, ast.Add, ast.Sub)):
            a, b = _const(e.left), _const(e.right)
            if a is None or b is None:
                return None
            return a * b if isinstance(e.op, ast.Mult) else a + b if isinstance(e.op, ast.Add) else a - b
    except Exception:
        return None
    return None


def _bool_hooks(f):
    """parameters of f with a constant boolean default (event=True, without_event=False): name -> default"""
    a = f.node.args
    out = {}
    pos = a.posonlyargs + a.args
    for arg, d in zip(pos[len(pos) - len(a.defaults):], a.defaults):
        if isinstance(d, ast.Constant) and isinstance(d.value, bool):
            out[arg.arg] = d.value
    for arg, d in zip(a.kwonlyargs, a.kw_defaults):
        if d is not None and isinstance(d, ast.Constant) and isinstance(d.value, bool):
            out[arg.arg] = d.value
    return out


class C16:
    def __init__(self, ctx: Ctx, rep: Report):
        self.ctx, self.rep = ctx, rep
        p = ctx.prog
        self.P = p.cls("Provider")
        self.mock = p.cls("MockProvider")
        self.fs = p.cls("FileSystemProvider")
        self.abstract = {n: f for n, f in list(self.P.methods.items()) + list(self.P.getters.items()) if f.is_abstract}

    # helper: raise sites (class names) reachable from an operation within the provider class (depth 3, under graph)
    def raise_classes(self, c, f: FuncInfo, depth=3, seen=None):
        seen = seen or set()
        if f.qname in seen:
            return set()
        seen.add(f.qname)
        out = set()
        for n in self.ctx.own_nodes(f):
            if isinstance(n, ast.Raise) and n.exc is not None:
                e = n.exc.func if isinstance(n.exc, ast.Call) else n.exc
                out.add(ast.unparse(e).split(".")[-1])
        if depth:
            for s in self.ctx.sites(f):
                for t in s.under:
                    if t.cls is not None and (t.cls in c.mro):
                        out |= self.raise_classes(c, t, depth - 1, seen)
        return out

    def p1(self):
        rep = self.rep
        rep.rule("C16.P1", "MockProvider and FileSystemProvider override every abstract method of Provider with a compatible "
                 "positional signature", expect_min=30)
        if len(self.abstract) < 14:
            raise AnalysisError("only %d abstract Provider methods found" % len(self.abstract))
        for c in (self.mock, self.fs):
            for name, af in sorted(self.abstract.items()):
                f = c.lookup(name) or c.lookup_getter(name)
                key = "%s.%s" % (c.name, name)
                if f is None or f is af:
                    rep.violation("C16.P1", key, c.module.relpath + ":%d" % c.node.lineno, "%s does not implement Provider.%s" % (c.name, name))
                    continue
                want, got = af.params()[1:], f.params()[1:]
                a = f.node.args
                required = got[: len(got) - len(a.defaults)] if a.defaults else got
                okk = (got[: len(want)] == want or a.vararg is not None) and len(required) <= len(want)
                rep.check("C16.P1", key, f, okk, "(%s)" % ", ".join(got), "signature (%s) is not call-compatible with Provider.%s(%s)" % (", ".join(got), name, ", ".join(want)), nontrivial=False)

    def p2(self):
        rep, ctx = self.rep, self.ctx
        rep.rule("C16.P2", "each operation can raise the documented error classes the engine relies on (exists / not found / not empty / "
                 "name error); the filesystem provider's errno map has its eight rows, sub-classes tested before OSError; every raising OS "
                 "call reached from an API method is inside `with self._api()`", expect_min=25)
        for c, table in ((self.mock, MOCK_ERRORS), (self.fs, FS_ERRORS)):
            for (op, err) in sorted(table):
                f = c.lookup(op)
                if f is None:
                    continue
                got = self.raise_classes(c, f)
                rep.check("C16.P2", "%s.%s|%s" % (c.name, op, err), f, err in got, "can raise %s" % err,
                          "%s.%s can no longer raise %s (raises %s): the engine's handler for that condition never runs" % (c.name, op, err, sorted(got)))
        # errno map
        ex = self.fs.methods.get("__exit__")
        if ex is None:
            raise AnalysisError("FileSystemProvider.__exit__ vanished")
        exc = ex.params()[2]
        rows = {}
        order = []
        errno_names = set()      # locals that hold <exception>.errno
        for n in ctx.own_nodes(ex):
            if isinstance(n, ast.Assign) and isinstance(n.targets[0], ast.Name) and pat.match("%s.errno" % exc, n.value) is not None:
                errno_names.add(n.targets[0].id)
        for n in ctx.own_nodes(ex):
            if isinstance(n, ast.If):
                m = pat.match("isinstance(%s, $C)" % exc, n.test)
                key = ast.unparse(m["C"]) if m else None
                t_ = n.test
                if key is None and isinstance(t_, ast.Compare) and len(t_.ops) == 1 and isinstance(t_.ops[0], ast.Eq) \
                        and (pat.match("%s.errno" % exc, t_.left) is not None or (isinstance(t_.left, ast.Name) and t_.left.id in errno_names)) \
                        and isinstance(t_.comparators[0], ast.Attribute):
                    key = t_.comparators[0].attr
                if key is None:
                    continue
                raised = [ast.unparse(r.exc.func if isinstance(r.exc, ast.Call) else r.exc).split(".")[-1] for r in n.body if isinstance(r, ast.Raise) and r.exc is not None]
                if raised:
                    rows[key] = raised[0]
                order.append((n.lineno, key))
        for k, v in ERRNO_ROWS.items():
            rep.check("C16.P2", "FileSystemProvider.__exit__|%s" % k, ex, rows.get(k) == v, "%s -> %s" % (k, v),
                      "OS condition %s is mapped to %s (expected %s)" % (k, rows.get(k), v))
        order.sort()
        keys = [k for _, k in order]
        if "OSError" in keys:
            bad = [k for k in ("FileNotFoundError", "FileExistsError", "IsADirectoryError", "NotADirectoryError") if k in keys and keys.index(k) > keys.index("OSError")]
            rep.check("C16.P2", "FileSystemProvider.__exit__|order", ex, not bad, "specific OS errors are tested before OSError",
                      "%s tested after the generic OSError arm (shadowed)" % bad)
        # raising OS calls only under `with self._api()`
        def is_api_item(f, it):
            return isinstance(it.context_expr, ast.Call) and pat.match("self._api($$$)", it.context_expr) is not None

        def os_sites(f):
            out = []
            for n in ctx.own_nodes(f):
                if isinstance(n, ast.Call):
                    if isinstance(n.func, ast.Name) and n.func.id == "open":
                        out.append((n, "open()"))
                    elif isinstance(n.func, ast.Attribute) and isinstance(n.func.value, ast.Name) and (n.func.value.id, n.func.attr) in RAISING_OS:
                        out.append((n, "%s.%s()" % (n.func.value.id, n.func.attr)))
            return out
        ls = LockSet(ctx, is_api_item, os_sites, over=False, skip=lambda f: f.cls is None or f.cls not in (self.fs,))
        total = 0
        for name in sorted(self.abstract):
            f = self.fs.lookup(name)
            if f is None or f.cls is not self.fs:
                continue
            viol, nstates, nsites = ls.unlocked_from(f)
            total += nsites
            # calls inside a try that catches the OS error locally are fine
            viol = [v for v in viol if not self._locally_handled(v[0], v[1])]
            rep.check("C16.P2", "FileSystemProvider.%s|os-calls" % name, f, not viol, "%d raising OS call(s), all under _api()" % nsites,
                      "raising OS call outside `with self._api()`: %s - its OSError reaches the engine unmapped" % "; ".join("%s at %s via %s" % (d, ctx.line(ff, n), ch) for ff, n, d, ch in viol[:3]))
        if total < 10:
            raise AnalysisError("only %d raising OS call sites reached from the filesystem provider's API methods" % total)

    def _locally_handled(self, f: FuncInfo, node: ast.AST) -> bool:
        for t in self.ctx.own_nodes(f):
            if isinstance(t, ast.Try) and any(x is node for b in t.body for x in ast.walk(b)):
                for h in t.handlers:
                    names = [ast.unparse(x).split(".")[-1] for x in (h.type.elts if isinstance(h.type, ast.Tuple) else [h.type])] if h.type is not None else ["BaseException"]
                    if any(n in ("Exception", "BaseException", "OSError", "FileNotFoundError") for n in names) and not any(isinstance(x, ast.Raise) and x.exc is None for b in h.body for x in ast.walk(b)):
                        return True
        return False

    # ------------------------------------------------------------------ P3
    def _producers(self, c, f: FuncInfo, names, depth=2, seen=None):
        seen = seen or set()
        if f.qname in seen:
            return set()
        seen.add(f.qname)
        out = set()
        for n in self.ctx.own_nodes(f):
            if isinstance(n, ast.Call):
                nm = n.func.attr if isinstance(n.func, ast.Attribute) else (n.func.id if isinstance(n.func, ast.Name) else None)
                if nm in names:
                    out.add(nm)
        if depth:
            for s in self.ctx.sites(f):
                for t in s.under:
                    if t.cls is not None and t.cls in c.mro and t.name not in names:
                        out |= self._producers(c, t, names, depth - 1, seen)
        return out

    def p3(self):
        rep, ctx = self.rep, self.ctx
        rep.rule("C16.P3", "hash_data(contents) is computed by the same digest producers, under the same finality switch, as the hash "
                 "in info_oid / info_path / listdir / hash_oid; the prefix+suffix digest is declared final only when it covered the whole file", expect_min=5)
        # filesystem provider
        fs = self.fs
        hd = fs.methods["hash_data"]
        fhp = fs.methods.get("_fast_hash_path")
        fhd = fs.methods.get("_fast_hash_data")
        if fhp is None or fhd is None:
            raise AnalysisError("FileSystemProvider._fast_hash_path/_fast_hash_data vanished")
        names = {"get_hash", "_fast_hash_data"}
        a, b = self._producers(fs, hd, names), self._producers(fs, fhp, names)
        rep.check("C16.P3", "FileSystemProvider", hd, a == b, "producers %s in both" % sorted(a),
                  "hash_data uses digest producer(s) %s, the info / hash_oid hash uses %s: hash_data(contents) != info.hash for some sizes" % (sorted(a), sorted(b)))
        for f in (hd, fhp):
            # the fast digest is the result only when it is final; get_hash only when it is not
            finals = set()
            for n in ctx.own_nodes(f):
                if isinstance(n, ast.Assign) and isinstance(n.value, ast.Call) and isinstance(n.value.func, ast.Attribute) and n.value.func.attr == "_fast_hash_data" \
                        and isinstance(n.targets[0], ast.Tuple) and len(n.targets[0].elts) == 2 and isinstance(n.targets[0].elts[1], ast.Name):
                    finals.add(n.targets[0].elts[1].id)
            if not finals:
                rep.violation("C16.P3", "%s|finality" % f.name, f, "%s does not take the finality flag of _fast_hash_data into account" % f.name)
                continue
            fin = sorted(finals)[0]
            gh = [n for n in ctx.own_nodes(f) if isinstance(n, ast.Call) and isinstance(n.func, ast.Name) and n.func.id == "get_hash"]
            ok_gh = [n for n in gh if (fin, False) in ctx.facts_at(f, n)]
            use_fast = False
            for n in ctx.own_nodes(f):
                if isinstance(n, (ast.Return, ast.Assign)) and n.value is not None and isinstance(n.value, ast.Name) and (fin, True) in ctx.facts_at(f, n):
                    use_fast = True
            rep.check("C16.P3", "%s|finality" % f.name, f, bool(ok_gh) and use_fast, "fast digest when final, full digest otherwise",
                      "%s does not switch between the fast digest (final) and the full digest (not final)" % f.name)
        # finality constants: `last` is empty exactly when length <= T, and `first` reads N bytes: final must imply covered, i.e. T <= N
        N = T = None
        rets = [n for n in ctx.own_nodes(fhd) if isinstance(n, ast.Return) and isinstance(n.value, ast.Tuple) and len(n.value.elts) == 2]
        # return get_hash(<first> + <last>), not <last>
        lastn = firstn = None
        for r in rets:
            m = pat.match("not $L", r.value.elts[1])
            if m and isinstance(m["L"], ast.Name):
                lastn = m["L"].id
            for x in ast.walk(r.value.elts[0]):
                if isinstance(x, ast.BinOp) and isinstance(x.op, ast.Add) and isinstance(x.left, ast.Name) and isinstance(x.right, ast.Name) and x.right.id == lastn:
                    firstn = x.left.id
        for n in ctx.own_nodes(fhd):
            if isinstance(n, ast.Assign) and isinstance(n.targets[0], ast.Name) and n.targets[0].id == firstn and isinstance(n.value, ast.Call) and n.value.args:
                N = _const(n.value.args[0])
            if isinstance(n, ast.If) and isinstance(n.test, ast.Compare) and len(n.test.ops) == 1 and isinstance(n.test.ops[0], ast.Gt) \
                    and any(isinstance(x, ast.Assign) and isinstance(x.targets[0], ast.Name) and x.targets[0].id == lastn for x in n.orelse):
                T = _const(n.test.comparators[0])
            if isinstance(n, ast.If) and isinstance(n.test, ast.Compare) and len(n.test.ops) == 1 and isinstance(n.test.ops[0], ast.LtE) \
                    and any(isinstance(x, ast.Assign) and isinstance(x.targets[0], ast.Name) and x.targets[0].id == lastn for x in n.body):
                T = _const(n.test.comparators[0])
        fin_ok = bool(rets) and lastn is not None and firstn is not None
        if N is None or T is None or not fin_ok:
            rep.error("rule=C16.P3 reason=undecided: _fast_hash_data is outside the recognised shape (first = read(N); if length > T: ... else: last = b''; return digest, not last)")
        else:
            rep.check("C16.P3", "_fast_hash_data|final-implies-covered", fhd, T <= N, "final iff length <= %d, first block reads %d bytes" % (T, N),
                      "the digest is declared final for files up to %d bytes but only the first %d bytes were hashed: different contents with "
                      "the same first KiB share one hash" % (T, N))
        # mock provider: hash_data and MockFSObject.hash use the provider's _hash_func
        mk = self.mock
        hd = mk.methods["hash_data"]
        uses = any(isinstance(n, ast.Call) and pat.match("self._hash_func($X)", n) is not None for n in ctx.own_nodes(hd))
        obj = ctx.prog.cls("MockFSObject")
        oh = obj.methods["hash"]
        uses2 = any(isinstance(n, ast.Call) and pat.match("self._hash_func(self.contents)", n) is not None for n in ctx.own_nodes(oh))
        bound = True
        nsites = 0
        for f in mk.methods.values():
            for n in ctx.own_nodes(f):
                if isinstance(n, ast.Call) and isinstance(n.func, ast.Name) and n.func.id == "MockFSObject":
                    nsites += 1
                    kws = {k.arg: k.value for k in n.keywords}
                    hf = kws.get("hash_func") or (n.args[3] if len(n.args) > 3 else None)
                    bound = bound and hf is not None and pat.match("self._hash_func", hf) is not None
        rep.check("C16.P3", "MockProvider", hd, uses and uses2 and bound and nsites >= 3, "one _hash_func for hash_data and for all %d object construction sites" % nsites,
                  "the mock's hash_data and object hash are not produced by the same function (hash_data: %s, object: %s, bound at every construction: %s)" % (uses, uses2, bound))

    # ------------------------------------------------------------------ P4
    def p4(self):
        rep, ctx = self.rep, self.ctx
        rep.rule("C16.P4", "MockProvider: every normal path that stores / unstores an object, replaces its contents or flips `exists` "
                 "passes _register_event (exceptions: the `without_event` test hook of _delete and `event=False` for the children of a "
                 "renamed folder)", expect_min=5)
        mk = self.mock
        for name in ("upload", "create", "mkdir", "_rename_single_object", "_delete", "_unfile"):
            f = mk.methods.get(name)
            if f is None:
                raise AnalysisError("MockProvider.%s vanished" % name)
            g = ctx.cfg(f)

            def is_mut(n):
                r = cfg_root(n)
                if r is None:
                    return False
                for x in ast.walk(r):
                    if isinstance(x, ast.Call) and isinstance(x.func, ast.Attribute) and x.func.attr in ("_store_object", "_unstore_object", "unfile"):
                        return True
                    if isinstance(x, ast.Attribute) and isinstance(x.ctx, ast.Store) and x.attr in ("contents", "exists") and not (isinstance(x.value, ast.Name) and x.value.id == f.self_name):
                        # `file.exists = True` on a freshly constructed object is not a mutation of the tree
                        if isinstance(r, ast.Assign) and isinstance(r.value, ast.Constant) and r.value.value is True and x.attr == "exists":
                            continue
                        return True
                return False
            muts = [n for n in g.nodes if is_mut(n)]
            if not muts:
                raise AnalysisError("MockProvider.%s: no tree mutation recognised" % name)
            ev = lambda n: node_has_call(n, "self._register_event($$$)")   # noqa: E731
            # allowed escapes: false edge of `if event:` / `if not without_event:` tests
            # the caller asked for silence: `event` false / `without_event` true - whichever way the test is spelled
            hooks = set()
            for n in g.nodes:
                if n.kind == "test":
                    e_, pos = n.ast, True
                    while isinstance(e_, ast.UnaryOp) and isinstance(e_.op, ast.Not):
                        e_, pos = e_.operand, not pos
                    if isinstance(e_, ast.Name) and e_.id in _bool_hooks(f):
                        silent = not _bool_hooks(f)[e_.id]          # the default is the loud value
                        hooks.add((n.id, "T" if silent == pos else "F"))
            pth = g.reach([m.id for m in muts], lambda n: n is g.exit, avoid=ev, follow=lambda a, b, l: l != "exc" and (a, l) not in hooks)
            rep.check("C16.P4", "MockProvider.%s" % name, f, pth is None, "%d mutation node(s), all followed by an event" % len(muts),
                      "a change of the mock tree in %s is not followed by an event: the engine never learns about it" % name, witness=describe_path(pth) if pth else None)
        # the event=False exception is used only for the children of a renamed folder
        rn = mk.methods["rename"]
        rso = mk.methods["_rename_single_object"]
        hk = _bool_hooks(rso)
        quiet = [n for n in ctx.own_nodes(rn) if isinstance(n, ast.Call) and pat.match("self._rename_single_object($$$)", n) is not None
                 and any(k.arg in hk and isinstance(k.value, ast.Constant) and k.value.value is (not hk[k.arg]) for k in n.keywords)]
        ok = all(any(isinstance(lp, ast.For) and any(x is n for x in ast.walk(lp)) for lp in ctx.own_nodes(rn)) for n in quiet)
        loud = [n for n in ctx.own_nodes(rn) if isinstance(n, ast.Call) and pat.match("self._rename_single_object($O, $P)", n) is not None]
        rep.check("C16.P4", "MockProvider.rename|parent-event", rn, ok and len(loud) >= 2, "only children are renamed silently; the renamed object itself emits its event",
                  "the renamed object itself is moved without an event (event=False outside the children loop, or the loud rename is gone)")

        # the silent-delete test hook is used by no production call site
        dl = mk.methods["_delete"]
        hook = {k for k, v in _bool_hooks(dl).items() if v is False}          # silence hooks: boolean parameters that default to "loud"
        if not hook:
            raise AnalysisError("MockProvider._delete lost its silence hook (positive control of the hook rule)")
        pos = [a.arg for a in dl.node.args.args[1:]]
        for f in ctx.prog.functions.values():
            if ".tests." in f.module.name:
                continue
            for n in ctx.own_nodes(f):
                if isinstance(n, ast.Call) and isinstance(n.func, ast.Attribute) and n.func.attr == "_delete":
                    silent = [k for k in n.keywords if k.arg in hook and not (isinstance(k.value, ast.Constant) and not k.value.value)] or \
                             [a for i, a in enumerate(n.args) if i < len(pos) and pos[i] in hook and not (isinstance(a, ast.Constant) and not a.value)]
                    rep.check("C16.P4", "silent-delete|" + stmt_key(f, n), ctx.line(f, n), not silent, "deletes with its event",
                              "`%s` deletes an object of the mock tree without a delete event: an event-mirroring consumer keeps a phantom live id" % ast.unparse(n), func=f.qname)

    def p9_p10(self):
        rep, ctx = self.rep, self.ctx
        rep.rule("C16.P9", "FileSystemProvider.rename refuses an occupied destination: with something at the destination it raises CloudFileExistsError unless a folder "
                 "replaces an EMPTY folder - the guard is `destination is no folder, or the kinds differ, or the destination folder has contents`", expect_min=1)
        from sa import predform
        f = self.fs.methods["rename"]
        defs = {}
        for n in ctx.own_nodes(f):
            if isinstance(n, ast.Assign) and isinstance(n.targets[0], ast.Name):
                defs.setdefault(n.targets[0].id, []).append(n.value)
        dst = [k for k, v in defs.items() if len(v) == 1 and pat.match("self.join(self.namespace_id, $P)", v[0]) is not None]
        src = [k for k, v in defs.items() if len(v) == 1 and pat.match("self._oid_to_fpath($O)", v[0]) is not None]
        if len(dst) != 1 or len(src) != 1:
            raise AnalysisError("FileSystemProvider.rename: source / destination paths not identified")
        to_dir = [k for k, v in defs.items() if len(v) == 1 and pat.match("os.path.isdir(%s)" % dst[0], v[0]) is not None]
        from_dir = [k for k, v in defs.items() if len(v) == 1 and pat.match("os.path.isdir(%s)" % src[0], v[0]) is not None]
        has = [k for k, v in defs.items() if any(isinstance(x, ast.Call) and pat.match("self._folder_path_has_contents(%s)" % dst[0], x) is not None for x in v)]
        if not (to_dir and from_dir and has):
            raise AnalysisError("FileSystemProvider.rename: to_dir / from_dir / has_contents locals not identified")
        ex_if = [n for n in ctx.own_nodes(f) if isinstance(n, ast.If) and pat.match("os.path.exists(%s)" % dst[0], n.test) is not None]
        good, detail = False, "no `if os.path.exists(<destination>)` block"
        for blk in ex_if:
            for n in ast.walk(blk):
                test = getattr(n, "test", None)
                if isinstance(test, ast.Name) and len(defs.get(test.id, [])) == 1 and isinstance(defs[test.id][0], (ast.BoolOp, ast.Compare, ast.UnaryOp)):
                    test = defs[test.id][0]         # an explaining variable stands for its definition
                if isinstance(n, ast.If) and n is not blk and any(isinstance(x, ast.Raise) and "CloudFileExistsError" in ast.unparse(x) for x in ast.walk(n)) \
                        and any(isinstance(x, ast.Name) and x.id in (to_dir[0], has[0]) for x in ast.walk(test)):
                    if isinstance(test, ast.BoolOp) and isinstance(test.op, ast.And):
                        # a merged test (`if <guard> and not self.paths_match(...)`): the guard is the part about the two directory flags
                        mine = [v for v in test.values if any(isinstance(x, ast.Name) and x.id in (to_dir[0], from_dir[0], has[0]) for x in ast.walk(v))]
                        if mine and len(mine) < len(test.values):
                            test = mine[0] if len(mine) == 1 else ast.BoolOp(op=ast.And(), values=mine)
                    try:
                        got = predform.dnf(test)
                        want = predform.dnf(predform.parse("not {t} or {t} != {f} or {h}".format(t=to_dir[0], f=from_dir[0], h=has[0])))
                    except predform.Undecided as e:
                        detail = "undecided: %s" % e
                        continue
                    good = got == want
                    detail = predform.show(got)
        rep.check("C16.P9", "FileSystemProvider.rename|occupied-destination", f, good, "raises unless folder-over-empty-folder",
                  "the occupied-destination guard of FileSystemProvider.rename is now [%s]: e.g. a file renamed onto an existing file silently replaces it (no CloudFileExistsError, "
                  "the destination's bytes are gone) - the mock refuses that" % detail)
        rep.rule("C16.P10", "a mock event is a snapshot of the object at the time of the change: MockEvent stores a copy of the object, not the live object (two changes of one "
                 "object between polls are reported with their own id / existence)", expect_min=1)
        me = ctx.prog.cls("MockEvent").methods["__init__"]
        st = [n for n in ctx.own_nodes(me) if isinstance(n, ast.Assign) and isinstance(n.targets[0], ast.Attribute) and isinstance(n.value, (ast.Call, ast.Name, ast.Attribute))
              and any(isinstance(x, ast.Name) and x.id in me.params()[1:] and "object" in x.id for x in ast.walk(n.value))]
        okc = bool(st) and all(isinstance(n.value, ast.Call) and ("copy" in ast.unparse(n.value.func)) for n in st)
        rep.check("C16.P10", "MockEvent|snapshot", me, okc, "the event keeps copy(object)",
                  "MockEvent keeps a live reference to the object: every queued event of an object reports its LATEST id, path and existence when the feed is polled")

    def p3b(self):
        rep, ctx = self.rep, self.ctx
        rep.rule("C16.P3b", "the hash cache of the filesystem provider stamps an entry with the modification time read BEFORE the content was hashed: no os.stat is "
                 "reachable after a content read in _fast_hash_path (a writer racing with the read then always invalidates the entry)", expect_min=1)
        f = self.fs.methods["_fast_hash_path"]
        g = ctx.cfg(f)
        reads = [n for n in g.nodes if node_has_call(n, "get_hash($F)") or node_has_call(n, "self._fast_hash_data($F)") or node_has_call(n, "$F.read($$$)")]
        stats = [n for n in g.nodes if node_has_call(n, "os.stat($P)") or node_has_call(n, "os.path.getmtime($P)") or node_has_call(n, "os.fstat($P)")]
        if not reads or not stats:
            raise AnalysisError("_fast_hash_path: content reads / os.stat not found")
        pth = g.reach([n.id for n in reads], lambda n: n in stats, follow=NORMAL)
        rep.check("C16.P3b", "_fast_hash_path|stat-before-read", f, pth is None, "%d stat(s), all before the first content read" % len(stats),
                  "the modification time stored with the cached hash is read after the content was hashed: a write that lands in between leaves an old hash cached under "
                  "the new mtime, so info/listdir/hash_oid keep reporting a hash that differs from hash_data of the bytes on disk", witness=describe_path(pth) if pth else None)

    # ------------------------------------------------------------------ P5 / P6
    def p5_p6(self):
        rep, ctx = self.rep, self.ctx
        rep.rule("C16.P5", "Provider.connect refuses a different identity (mismatch test -> CloudTokenError, __connected set only after it); "
                 "a provider instance serves one sync at a time (ProviderGuard.add in EventManager.__init__, remove in done)", expect_min=3)
        f = self.P.methods["connect"]
        g = ctx.cfg(f)
        raises = [n for n in g.nodes if n.kind == "stmt" and isinstance(n.ast, ast.Raise) and "CloudTokenError" in ast.unparse(n.ast)]
        good = bool(raises) and all(has_fact(ctx.facts(f).facts(r), "self.connection_id == $N", False) and fact_in(ctx.facts(f).facts(r), "self.connection_id", True) for r in raises)
        rep.check("C16.P5", "connect|mismatch", f, good, "raise under `connection_id set and != new id`", "connect() no longer rejects credentials of a different account")
        disc = lambda n: node_has_call(n, "self.disconnect()")   # noqa: E731
        pthd = g.reach([g.entry.id], lambda n: n in raises, avoid=disc, follow=NORMAL)
        rep.check("C16.P5", "connect|refusal-disconnects", f, bool(raises) and pthd is None, "disconnect() before the refusal is raised",
                  "connect() refuses the other identity but leaves the provider connected: connect_impl has already switched the session, so the provider keeps "
                  "serving the other account under the original connection id", witness=describe_path(pthd) if pthd else None)
        setc = [n for n in g.nodes if node_stores_attr(n, "__connected", "True")]
        tests = [n for n in g.nodes if n.kind == "test" and pat.match("self.connection_id != $N", n.ast) is not None]
        pth = g.reach([g.entry.id], lambda n: n in setc, avoid=lambda n: n.kind == "test" and any(isinstance(x, ast.Attribute) and x.attr == "connection_id" for x in ast.walk(n.ast)), follow=NORMAL)
        rep.check("C16.P5", "connect|order", f, bool(setc) and pth is None, "__connected = True only after the identity test",
                  "the provider is marked connected before the identity test", witness=describe_path(pth) if pth else None)
        em = ctx.prog.cls("EventManager")
        add = any(isinstance(n, ast.Call) and pat.match("self._provider_guard.add(provider)", n) is not None for n in ctx.own_nodes(em.methods["__init__"]))
        rem = any(isinstance(n, ast.Call) and pat.match("self._provider_guard.remove(self.provider)", n) is not None for n in ctx.own_nodes(em.methods["done"]))
        pg = ctx.prog.cls("ProviderGuard").methods["add"]
        rz = any(isinstance(n, ast.Raise) for n in ctx.own_nodes(pg))
        rep.check("C16.P5", "ProviderGuard", em.methods["__init__"], add and rem and rz, "add in __init__, remove in done, add raises on reuse",
                  "provider re-use across syncs is no longer guarded (add: %s, remove: %s, raise: %s)" % (add, rem, rz), nontrivial=False)
        rep.rule("C16.P6", "the only store to a mock object's `oid` after construction is under `oid_is_path` (ids of id-style providers survive rename)", expect_min=1)
        n_st = 0
        for f in self.mock.methods.values():
            for n in ctx.own_nodes(f):
                if isinstance(n, ast.Assign) and isinstance(n.targets[0], ast.Attribute) and n.targets[0].attr == "oid" and not (isinstance(n.targets[0].value, ast.Name) and n.targets[0].value.id == f.self_name):
                    n_st += 1
                    rep.check("C16.P6", stmt_key(f, n), ctx.line(f, n), ("self.oid_is_path", True) in ctx.facts_at(f, n), "under oid_is_path",
                              "`%s` changes an object's id for id-style providers too: ids no longer survive rename" % ast.unparse(n), func=f.qname)
        if n_st == 0:
            raise AnalysisError("no post-construction store to a mock object's oid found (positive control)")

    # ------------------------------------------------------------------ P7
    def p7(self):
        rep, ctx = self.rep, self.ctx
        rep.rule("C16.P7", "query methods (info / exists / listdir / hash / download) do not change the provider's tree: no store/unstore/"
                 "event in the mock, no mutating OS call in the filesystem provider", expect_min=14)
        for c in (self.mock, self.fs):
            for name in QUERIES:
                f = c.lookup(name)
                if f is None or f.cls not in c.mro or f.is_abstract:
                    continue
                parent = ctx.reach_funcs([f], over=False, stop=lambda g: g.cls is None or g.cls not in c.mro + [ctx.prog.cls("MockFS")])
                bad = []
                for q in parent:
                    g = ctx.prog.functions[q]
                    if g.cls is None:
                        continue
                    for n in ctx.own_nodes(g):
                        if isinstance(n, ast.Call) and isinstance(n.func, ast.Attribute):
                            if c is self.mock and n.func.attr in ("_store_object", "_unstore_object", "_register_event", "register_event", "store", "unstore", "unfile"):
                                bad.append((g, n))
                            if c is self.fs and isinstance(n.func.value, ast.Name) and (n.func.value.id, n.func.attr) in {("os", "rename"), ("os", "mkdir"), ("os", "rmdir"), ("os", "unlink"), ("os", "remove"), ("shutil", "rmtree")}:
                                bad.append((g, n))
                        if isinstance(n, ast.Call) and isinstance(n.func, ast.Name) and n.func.id == "open" and c is self.fs:
                            mode = n.args[1] if len(n.args) > 1 else None
                            if isinstance(mode, ast.Constant) and any(ch in str(mode.value) for ch in "wax+"):
                                bad.append((g, n))
                        if c is self.mock and isinstance(n, ast.Attribute) and isinstance(n.ctx, ast.Store) and n.attr in ("contents", "exists", "path", "oid") and g.cls in (self.mock,) \
                                and not (isinstance(n.value, ast.Name) and n.value.id == g.self_name):
                            bad.append((g, n))
                rep.check("C16.P7", "%s.%s" % (c.name, name), f, not bad, "%d function(s) reachable, no tree mutation" % len(parent),
                          "query %s.%s reaches a mutation of the tree: %s" % (c.name, name, "; ".join("%s `%s`" % (ctx.line(g, n), ast.unparse(n)[:50]) for g, n in bad[:3])))

    # ------------------------------------------------------------------ P8
    def p8(self):
        rep, ctx = self.rep, self.ctx
        rep.rule("C16.P8", "MockProvider selects the children of a folder with the provider's own path algebra - "
                 "is_subpath(<folder path>, obj.path, strict=True) - in every loop over the object table (listdir and folder rename agree)", expect_min=2)
        n = 0
        for f in self.mock.methods.values():
            for lp in ctx.own_nodes(f):
                if isinstance(lp, ast.For) and any(isinstance(x, ast.Call) and isinstance(x.func, ast.Attribute) and x.func.attr == "fs_objects" for x in ast.walk(lp.iter)):
                    n += 1
                    var = lp.target.id if isinstance(lp.target, ast.Name) else "?"
                    good = any(isinstance(x, ast.Call) and pat.match("self.is_subpath($F, %s.path, strict=True)" % var, x) is not None for x in ast.walk(lp))
                    raw = [x for x in ast.walk(lp) if isinstance(x, ast.Call) and isinstance(x.func, ast.Attribute) and x.func.attr in ("startswith", "endswith", "find")
                           and any(isinstance(y, ast.Attribute) and y.attr == "path" for y in ast.walk(x))]
                    rep.check("C16.P8", "MockProvider.%s|children" % f.name, ctx.line(f, lp), good and not raw, "children selected by is_subpath(folder, obj.path, strict=True)",
                              "children are selected by raw string matching (%s) instead of is_subpath: case-insensitive / separator variants of the parent are missed"
                              % ", ".join("`%s`" % ast.unparse(r)[:50] for r in raw) if raw else "children of a folder are no longer selected by is_subpath(folder, obj.path, strict=True)",
                              func=f.qname)
        if n < 2:
            raise AnalysisError("only %d loops over the mock object table found, expected >= 2" % n)


def run(ctx: Ctx, rep: Report, tier: str):
    c = C16(ctx, rep)
    section(rep, c.p1)
    section(rep, c.p2)
    section(rep, c.p3)
    section(rep, c.p4)
    section(rep, c.p3b)
    section(rep, c.p9_p10)
    section(rep, c.p5_p6)
    section(rep, c.p7)
    section(rep, c.p8)
    rep.assume("Python's OSError subclasses and errno values mean what the os module documents")
    from rules.common import fs_events_trim_after_delivery, mock_rename_noop_is_exact
    rep.rule("C16.P11", "no event is dropped undelivered: FileSystemProvider.events() trims its backlog only behind the delivery loop", 1)
    section(rep, lambda: fs_events_trim_after_delivery(ctx, rep, "C16.P11"))
    rep.rule("C16.P12", "a case-only rename is a rename for the mock too: MockProvider.rename's no-op shortcut is exact path equality", 1)
    section(rep, lambda: mock_rename_noop_is_exact(ctx, rep, "C16.P12"))
    from rules.common import alias as _alias13
    from rules.C13 import C13 as _C13
    _alias13(rep, ["C13.Z5"], "C16.P13", "a provider reports the names it was given: the relative part that listings and renames are built from is cut from the un-folded path (C13.Z5)", 2,
             lambda: _C13(ctx, rep).z5())
    from rules.decisions import decision_table, table_sites
    rep.rule("C16.DT", "decision table (rules/decisions.json) of the mock and filesystem providers and the provider base class operations: for every function and every action shape (an impure call with the parameters it passes, a store to an "
             "attribute or item, a delete, a returned constant, a yield, a raise) the set of states - over the function's guard atoms - in which the action is taken "
             "equals the recorded one; compared as canonical decision diagrams, so any equivalent respelling of the guards is the same table", table_sites("C16"))
    section(rep, lambda: decision_table(ctx, rep, "C16.DT", "C16"))
