"""C01 - two-way convergence.

Convergence itself (equal trees when the engine goes quiet) is behavioural and NOT decided.  Decided are book-keeping
conditions without which the engine cannot go quiet or cannot make progress: the response protocol is dispatched (R1) and
every protocol function returns FINISHED / PUNT / REQUEUE on every path (R2); finishing clears the change flag and the
pending set (R3); every provider event reaches the state unless it is one of the three enumerated drops (R4); a REQUEUE is
always preceded by a priority change (R5).
"""
from __future__ import annotations

import ast

from sa.model import AnalysisError
from sa.ctx import Ctx, short, stmt_key
from sa.cfg import NORMAL, describe_path
from sa.report import Report, section
from sa.util import cfg_root, node_has_call, has_fact, fact_in, local_assigned_from
from sa import pat

PROTOCOL = ("embrace_change", "delete_synced", "_handle_dir_delete_not_empty", "handle_changed_is_missing", "handle_hash_diff", "handle_corrupt",
            "handle_path_change_or_creation", "create_synced", "handle_rename", "handle_cloud_file_not_found_error", "unsafe_mkdir_synced")
CONSTS = {"FINISHED", "PUNT", "REQUEUE"}
OPTIONAL = ("check_rename_is_delete_create",)   # returns None ("not handled") or a protocol value


def run(ctx: Ctx, rep: Report, tier: str):
    p = ctx.prog
    M = p.cls("SyncManager")
    rep.rule("C01.R1", "sync(): a FINISHED response calls finished(side, sync), a PUNT response calls sync.punt()", expect_min=2)
    s = M.methods["sync"]
    sync = s.params()[1]
    resp = local_assigned_from(ctx, s, "self.embrace_change($$$)")
    if resp is None:
        raise AnalysisError("sync(): the value of embrace_change() is not bound to a single local")
    fin = [c for c in ctx.calls(s, "finished") if fact_in(ctx.facts_at(s, c), "%s == FINISHED" % resp, True)]
    pun = [c for c in ctx.calls(s, "punt") if fact_in(ctx.facts_at(s, c), "%s == PUNT" % resp, True)]
    rep.check("C01.R1", "sync|FINISHED", s, bool(fin), "finished() under response == FINISHED", "a FINISHED response no longer clears the change flag: the engine never reports quiet")
    rep.check("C01.R1", "sync|PUNT", s, bool(pun), "punt() under response == PUNT", "a PUNT response no longer lowers the entry's rank: a persistently punting entry starves the rest")
    rep.rule("C01.R2", "every function whose value is used as the step response returns FINISHED / PUNT / REQUEUE (or another protocol function's "
             "result) on every path and never falls off the end", expect_min=9)
    for name in PROTOCOL:
        f = M.methods.get(name)
        if f is None:
            raise AnalysisError("SyncManager.%s vanished" % name)
        g = ctx.cfg(f)
        bad = []
        for (a, l) in g.pred[g.exit.id]:
            n = g.nodes[a]
            if l == "exc":
                continue
            if not (n.kind == "stmt" and isinstance(n.ast, ast.Return)):
                bad.append("falls off the end after line %d" % n.lineno)
                continue
            v = n.ast.value
            ok = False
            if isinstance(v, ast.Name) and (v.id in CONSTS):
                ok = True
            elif isinstance(v, ast.Call) and isinstance(v.func, ast.Attribute) and (v.func.attr in PROTOCOL or v.func.attr == "mkdir_synced"):
                ok = True
            elif isinstance(v, ast.Name):
                # a local that only ever holds protocol values
                defs = [x for x in ctx.own_nodes(f) if isinstance(x, ast.Assign) and any(isinstance(t, ast.Name) and t.id == v.id for t in x.targets)]
                ok = bool(defs) and all((isinstance(d.value, ast.Name) and d.value.id in CONSTS) or (isinstance(d.value, ast.Call) and isinstance(d.value.func, ast.Attribute) and d.value.func.attr in PROTOCOL) for d in defs)
                if not ok and defs and all(isinstance(d.value, ast.Call) and isinstance(d.value.func, ast.Attribute) and d.value.func.attr in OPTIONAL for d in defs):
                    # an optional answer (None = "not handled"): fine when returned only if it is not None
                    ok = fact_in(ctx.facts(f).facts(n), "%s is None" % v.id, False)
            if not ok:
                bad.append("line %d returns `%s`" % (n.lineno, ast.unparse(v) if v is not None else None))
        rep.check("C01.R2", name, f, not bad, "all %d exits return a protocol value" % len(g.pred[g.exit.id]),
                  "%s can answer with something that is neither FINISHED, PUNT nor REQUEUE (%s): the entry is neither finished nor punted and is re-picked unchanged"
                  % (name, "; ".join(bad[:3])))
    for name in OPTIONAL:
        f = M.methods.get(name)
        if f is None:
            raise AnalysisError("SyncManager.%s vanished" % name)
        vals = {ast.unparse(n.value) if n.value is not None else "None" for n in ctx.own_nodes(f) if isinstance(n, ast.Return)}
        rep.check("C01.R2", name, f, vals <= (CONSTS | {"None"}), "returns %s" % sorted(vals), "%s returns %s" % (name, sorted(vals - CONSTS - {"None"})), nontrivial=False)
    rep.rule("C01.R3", "SyncManager.finished clears the side's change flag and tells the state; SyncState.finished removes the entry from the pending set "
             "when neither side is changed (C11.X6)", expect_min=2)
    f = M.methods["finished"]
    side, sy = f.params()[1:3]
    g = ctx.cfg(f)
    clr = [n for n in g.nodes if cfg_root(n) is not None and isinstance(cfg_root(n), ast.Assign) and pat.match("%s[%s].changed = 0" % (sy, side), cfg_root(n)) is not None]
    st = [n for n in g.nodes if node_has_call(n, "self.state.finished(%s)" % sy)]
    pth = g.reach([g.entry.id], lambda n: n in st, avoid=lambda n: n in clr, follow=NORMAL)
    rep.check("C01.R3", "finished|clear-then-tell", f, bool(clr) and bool(st) and pth is None, "changed = 0, then state.finished(sync)", "finished() no longer clears the flag before telling the state")
    sf = p.func("SyncState.finished")
    ent = sf.params()[1]
    disc = [n for n in ctx.own_nodes(sf) if isinstance(n, ast.Call) and pat.match("self._changeset_storage.discard(%s)" % ent, n) is not None]
    rep.check("C01.R3", "SyncState.finished|discard", sf, bool(disc), "pending-set discard present", "a finished entry is never removed from the pending set")
    rep.rule("C01.R4", "intake: provider events, queued events and walk events all go through _process_event; its only exits without state.update are "
             "the falsy event, the id-less event and the unchanged walk event", expect_min=4)
    em = p.cls("EventManager")
    du = em.methods["_do_unsafe"]
    srcs = {"events": False, "queue": False}
    from sa.util import with_private_helpers
    for lp in [x for ff in with_private_helpers(ctx, du) for x in ctx.own_nodes(ff)]:
        if isinstance(lp, ast.For):
            has = any(isinstance(x, ast.Call) and pat.match("self._process_event($$$)", x) is not None for x in ast.walk(lp))
            if "self.provider.events()" in ast.unparse(lp.iter) and has:
                srcs["events"] = True
            if "self._queue" in ast.unparse(lp.iter) and has:
                srcs["queue"] = True
    wk = em.methods["_do_walk_if_needed"]
    walk = any(isinstance(lp, ast.For) and "walk_oid" in ast.unparse(lp.iter) and any(isinstance(x, ast.Call) and pat.match("self._process_event($E, from_walk=True)", x) is not None for x in ast.walk(lp))
               for lp in ctx.own_nodes(wk))
    rep.check("C01.R4", "intake|sources", du, all(srcs.values()) and walk, "events(), the queue and the walk all feed _process_event", "an event source no longer feeds _process_event (%s, walk %s)" % (srcs, walk))
    pe = em.methods["_process_event"]
    from rules.common import unchanged_walk_facts as _unchanged_walk_facts
    g = ctx.cfg(pe)
    upd = [n for n in g.nodes if node_has_call(n, "self.state.update($$$)")]
    drops = []
    for (a, l) in g.pred[g.exit.id]:
        n = g.nodes[a]
        if l == "exc":
            continue
        if g.reach([g.entry.id], lambda m: m is n, avoid=lambda m: m in upd, follow=NORMAL) is None:
            continue
        drops.append(n)
    kinds = []
    chg_name = None      # the local that holds "hash or path differs"
    for n_ in ctx.own_nodes(pe):
        if isinstance(n_, ast.Assign) and isinstance(n_.targets[0], ast.Name) and isinstance(n_.value, ast.BoolOp) and isinstance(n_.value.op, ast.Or) \
                and {"hash", "path"} <= {x.attr for x in ast.walk(n_.value) if isinstance(x, ast.Attribute)}:
            chg_name = n_.targets[0].id
    for d in drops:
        facts = ctx.facts(pe).facts(d)
        if fact_in(facts, "event", False):
            kinds.append("falsy-event")
        elif fact_in(facts, "event.oid is None", True):
            kinds.append("no-id")
        elif fact_in(facts, "from_walk", True) and _unchanged_walk_facts(facts, chg_name):
            kinds.append("unchanged-walk")
        else:
            kinds.append("?" + str(sorted(facts)))
    rep.check("C01.R4", "_process_event|drops", pe, sorted(kinds) == ["falsy-event", "no-id", "unchanged-walk"], "drops: %s" % sorted(kinds),
              "_process_event can drop an event for another reason than the three enumerated ones: %s" % sorted(kinds))
    for k in ("falsy-event", "no-id", "unchanged-walk"):
        rep.ok("C01.R4", "_process_event|drop:%s" % k, pe, "enumerated drop", nontrivial=False) if k in kinds else None
    rep.rule("C01.R5", "requeue contract: every `return REQUEUE` is preceded on every path by a store to the priority of the entry being synced", expect_min=1)
    k = 0
    for name, f in M.methods.items():
        g = ctx.cfg(f) if not isinstance(f.node, ast.Lambda) else None
        if g is None:
            continue
        rq = [n for n in g.nodes if n.kind == "stmt" and isinstance(n.ast, ast.Return) and isinstance(n.ast.value, ast.Name) and n.ast.value.id == "REQUEUE"]
        for r in rq:
            k += 1
            sy = f.params()[1] if len(f.params()) > 1 else "sync"
            pr = lambda n, sy=sy: cfg_root(n) is not None and isinstance(cfg_root(n), (ast.Assign, ast.AugAssign)) and any(   # noqa: E731
                isinstance(t, ast.Attribute) and t.attr == "priority" and isinstance(t.value, ast.Name) and t.value.id == sy
                for t in (cfg_root(n).targets if isinstance(cfg_root(n), ast.Assign) else [cfg_root(n).target]))
            pth = g.reach([g.entry.id], lambda n: n is r, avoid=pr, follow=NORMAL)
            rep.check("C01.R5", "%s|REQUEUE" % name, ctx.line(f, r.ast), pth is None, "priority of the entry changed before the requeue",
                      "REQUEUE is returned without touching the entry's priority: the same entry is re-picked immediately, for ever", witness=describe_path(pth) if pth else None, func=f.qname)
    if k == 0:
        raise AnalysisError("no `return REQUEUE` found")
    rep.assume("C01's behavioural content (equal trees at quiescence, boundedness) is not decided by this check")
    # --- conditions shared with neighbouring properties, reported here under C01's own ids
    def alias(src_rule, dst_rule, text, expect, fn):
        rep.rule(dst_rule, text, expect)
        rep.rules[src_rule] = "alias"
        fn()
        for i in rep.instances:
            if i.rule == src_rule:
                i.rule = dst_rule
        rep.rules.pop(src_rule, None)
        rep.expect.pop(src_rule, None)
    from rules.C15 import C15
    from rules.C10 import C10
    alias("C15.R2", "C01.R6", "picking the next change and syncing it, and applying one event, are single critical sections under the state lock (C15.R2): "
          "an event applied in the middle of a sync step is wiped by the step's book-keeping and never propagated", 3, lambda: C15(ctx, rep).r2())
    alias("C10.T7", "C01.R7", "a retry uploads the current content: the reusable temp-file name is a function of the side's current hash and path (C10.T7)", 2,
          lambda: C10(ctx, rep).t7())
    # --- parent-first ordering
    rep.rule("C01.R8", "parent first: when a changed parent folder blocks an entry, both priority assignments of the gentle punt leave the parent's "
             "priority strictly below (= earlier than) the child's, and a non-negative priority never becomes negative", 2)
    from rules.common import parent_first_priorities
    section(rep, lambda: parent_first_priorities(ctx, rep, "C01.R8"))
    rep.rule("C01.R9", "the parent-conflict search climbs every ancestor: inside its loop _get_parent_conflict moves to the parent and recomputes the parent's parent", 1)
    from rules.common import parent_search_climbs
    section(rep, lambda: parent_search_climbs(ctx, rep, "C01.R9"))
    from rules.common import kids_sync_path_rebased
    rep.rule("C01.R10", "a renamed folder re-bases each child's last-synced path from the child's own old last-synced path (C04.R4)", 1)
    section(rep, lambda: kids_sync_path_rebased(ctx, rep, "C01.R10"))
    from rules.common import alias as _alias
    from rules.C17 import C17 as _C17
    _alias(rep, ["C17.A6", "C17.A5", "C17.A7"], "C01.R11", "change stamps strictly increase (C17.A6): a second edit in the same clock tick / after a clock step back still outdates the last refresh, so the newest content is the one that is uploaded", 1, lambda: _C17(ctx, rep).a5_a7())
    from rules.common import event_application_writes_through
    rep.rule("C01.R12", "every field of a provider event reaches the state of the side it came from (C14.W11): nothing the engine is told is dropped or booked on the other side", 12)
    section(rep, lambda: event_application_writes_through(ctx, rep, "C01.R12"))
    rep.rule("C01.R13", "bounded work per entry: inside sync() a side's turn ends early only (a) because that side needs no sync, (b) after finished(side, sync), or (c) because the "
             "OTHER side still has a pending change that will be handled first - never by silently skipping a side that needs work", 4)
    sf = M.methods["sync"]
    gs = ctx.cfg(sf)
    syn = sf.params()[1]
    loops = [n for n in gs.nodes if n.kind == "iter" and isinstance(n.ast.target, ast.Name)]
    emb = [n for n in gs.nodes if node_has_call(n, "self.embrace_change($$$)")]
    if not loops or not emb:
        raise AnalysisError("SyncManager.sync: side loop / embrace_change call not found")
    lp = loops[0]
    sv = lp.ast.target.id
    oth = {n.targets[0].id for n in ctx.own_nodes(sf) if isinstance(n, ast.Assign) and isinstance(n.targets[0], ast.Name) and
           (pat.match("OTHER_SIDE[%s]" % sv, n.value) is not None or pat.match("other_side(%s)" % sv, n.value) is not None or pat.match("1 - %s" % sv, n.value) is not None)}
    oth_txt = ["%s[%s]" % (syn, o) for o in oth] + ["%s[OTHER_SIDE[%s]]" % (syn, sv), "%s[other_side(%s)]" % (syn, sv)]
    body = [b for (b, l) in gs.succ[lp.id] if l == "T"]
    after_emb = gs.reachable([e.id for e in emb], follow=NORMAL)
    fin = lambda n: node_has_call(n, "self.finished(%s, %s)" % (sv, syn))   # noqa: E731
    k13 = 0
    for n in gs.nodes:
        if n.kind == "stmt" and isinstance(n.ast, (ast.Continue, ast.Break)) and n.id not in after_emb:
            facts = ctx.facts(sf).facts(n)
            a_ = fact_in(facts, "%s[%s].needs_sync()" % (syn, sv), False)
            b_ = gs.reach(body, lambda m, n=n: m is n, avoid=fin, follow=NORMAL, include_src=True) is None
            c_ = any(pol and any(txt in (o + ".changed", o + ".needs_sync()") for o in oth_txt) for (txt, pol) in facts)
            k13 += 1
            rep.check("C01.R13", "sync|early-exit@%d" % k13, ctx.line(sf, n.ast), a_ or b_ or c_, "side needs no sync" if a_ else ("after finished()" if b_ else "deferred to the pending other side"),
                      "a side's turn is abandoned (`%s`) although the side needs sync, finished() was not called and the other side is not known to be pending (facts %s): "
                      "the entry stays in the pending set and is picked again and again without progress" % (type(n.ast).__name__.lower(), sorted(facts)))
    if k13 < 4:
        raise AnalysisError("SyncManager.sync: only %d early exits found before embrace_change (expected >= 4)" % k13)
    from rules.common import transfer_success_chain
    rep.rule("C01.R14", "a content change is finished only when it was transferred (C02.R10): download and upload results are tested, failure punts", 2)
    section(rep, lambda: transfer_success_chain(ctx, rep, "C01.R14"))
    from rules.common import definition_holds
    rep.rule("C01.R15", "the definition of 'needs sync' (what keeps an entry pending, hence when the engine goes quiet): forced, or changed with an id and (content differs "
             "from last sync, or path differs, or the side is gone)", 2)
    section(rep, lambda: definition_holds(ctx, rep, "C01.R15", "SideState.needs_sync", "an entry that differs between the sides can be dropped from the work list (quiet but unequal), or one that does not can stay pending for ever"))
    section(rep, lambda: definition_holds(ctx, rep, "C01.R15", "SyncEntry.needs_sync", "a change on one side is not seen as work"))
    from rules.common import embrace_dispatch
    rep.rule("C01.R16", "the sync step dispatches on the state of the changed side, each arm under exactly its own condition: missing -> handle_changed_is_missing, renamed or new -> "
             "handle_path_change_or_creation, content differs / corrupt peer -> handle_hash_diff", 3)
    section(rep, lambda: embrace_dispatch(ctx, rep, "C01.R16"))
    from rules.C07 import C07 as _C07
    _alias(rep, ["C07.R6"], "C01.R17", "a download that failed half-way is never taken for a complete one (C07.R6: bytes go to a '.tmp' sibling, published by rename): the two sides "
           "do not end up quiet with a truncated copy", 2, lambda: _C07(ctx, rep).r6())
    from rules.common import dir_delete_rechecks_kids
    rep.rule("C01.R18", "a folder delete that meets children makes progress: the children are looked up under the folder's current path on the deleting side and force-synced, "
             "and so is the folder (C04.R7) - otherwise the delete is retried until it is given up and the trees stay different", 3)
    section(rep, lambda: dir_delete_rechecks_kids(ctx, rep, "C01.R18"))
    from rules.decisions import decision_table as _dt, table_sites as _ts
    rep.rule("C01.R19", "work is dropped only where the state machine says so: every ignore / unignore / clear of an entry or an entry half in the engine is taken in exactly the set of states the decision table records (the disposal rows of rules/decisions.json over all its functions)", _ts(None, r"\.(ignore|unignore|clear)\("))
    section(rep, lambda: _dt(ctx, rep, "C01.R19", None, r"\.(ignore|unignore|clear)\("))
    from rules.common import retry_thresholds_ordered
    rep.rule("C01.R20", "retry thresholds are ordered: in handle_cloud_file_not_found_error plain punting stops strictly below the give-up threshold, so the recovery between them runs", 1)
    section(rep, lambda: retry_thresholds_ordered(ctx, rep, "C01.R20"))
    from rules.C07 import C07 as _C07b
    _alias(rep, ["C07.R4"], "C01.R21", "two different files of one name never end up booked as equal: an existing peer file is adopted silently only when its hash equals the hash "
           "of the bytes being created, computed by the same provider (C07.R4)", 3, lambda: _C07b(ctx, rep).r4())
    from rules.decisions import decision_table, table_sites
    rep.rule("C01.DT", "decision table (rules/decisions.json) of the sync step, the creation path, completion, the change count and the entry predicates: for every function and every action shape (an impure call with the parameters it passes, a store to an "
             "attribute or item, a delete, a returned constant, a yield, a raise) the set of states - over the function's guard atoms - in which the action is taken "
             "equals the recorded one; compared as canonical decision diagrams, so any equivalent respelling of the guards is the same table", table_sites("C01"))
    section(rep, lambda: decision_table(ctx, rep, "C01.DT", "C01"))
