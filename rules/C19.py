"""C19 - hierarchical path/id cache stays coherent under any operation sequence.

Decided: who may mutate the id map, the child maps and the parent links (H1); the maintenance pairs of the four mutating
primitives - _delete pops every id of the detached subtree and clears the parent link (H2), __insert_node evicts the
previous owner of the path and of the id before linking and registers every id of the subtree after it (H3), _set_oid evicts
before it stores and pairs the store with the map update (H4), a type change deletes the old node before a new one is made
(H5), rename is detach -> evict target -> insert (H6); getters are read-only (H7).
Not decided: agreement with a dictionary model over all operation sequences.
"""
from __future__ import annotations

import ast

from sa.model import AnalysisError, FuncInfo
from sa.ctx import Ctx, short, stmt_key
from sa.cfg import NORMAL, describe_path
from sa.report import Report, section
from sa.util import cfg_root, node_has_call, node_stores_attr, has_fact, fact_in, local_assigned_from
from sa import pat

MAP_OWNERS = {"HierarchicalCache.__init__", "HierarchicalCache.__insert_node", "HierarchicalCache._delete", "HierarchicalCache._set_oid"}
CHILD_OWNERS = {"Node.__init__", "Node.add_child", "HierarchicalCache._delete"}
PARENT_OWNERS = {"Node.__init__", "Node.parent@setter", "HierarchicalCache.__insert_node", "HierarchicalCache._delete"}
MUT = {"pop", "clear", "update", "setdefault", "popitem", "__setitem__", "__delitem__"}
GETTERS = ("get_oid", "get_path", "get_type", "get_metadata", "listdir", "walk", "_get_node", "_unsafe_path_to_node", "_walk", "__iter__", "_path_is_root", "_split")


class C19:
    def __init__(self, ctx: Ctx, rep: Report):
        self.ctx, self.rep = ctx, rep
        self.H = ctx.prog.cls("HierarchicalCache")
        self.N = ctx.prog.cls("Node")
        self.funcs = [f for f in ctx.prog.functions.values() if f.module is self.H.module]

    def mutations(self, f: FuncInfo):
        """(node, kind) with kind in map / children / parent."""
        out = []
        for n in self.ctx.own_nodes(f):
            if isinstance(n, ast.Subscript) and isinstance(n.ctx, (ast.Store, ast.Del)) and isinstance(n.value, ast.Attribute):
                if n.value.attr == "_oid_to_node":
                    out.append((n, "map"))
                elif n.value.attr == "children":
                    out.append((n, "children"))
            elif isinstance(n, ast.Call) and isinstance(n.func, ast.Attribute) and n.func.attr in MUT and isinstance(n.func.value, ast.Attribute):
                if n.func.value.attr == "_oid_to_node":
                    out.append((n, "map"))
                elif n.func.value.attr == "children":
                    out.append((n, "children"))
            elif isinstance(n, ast.Attribute) and isinstance(n.ctx, (ast.Store, ast.Del)):
                if n.attr == "_oid_to_node":
                    out.append((n, "map"))
                elif n.attr == "children":
                    out.append((n, "children"))
                elif n.attr in ("wr_parent", "parent"):
                    out.append((n, "parent"))
        return out

    def _name(self, f: FuncInfo) -> str:
        q = f.qname.split(".")
        return ".".join(q[-2:])

    def h1(self):
        rep, ctx = self.rep, self.ctx
        rep.rule("C19.H1", "the id map is mutated only in __init__, __insert_node, _delete, _set_oid; child maps only in Node.__init__, "
                 "Node.add_child and _delete; parent links only in Node.__init__, the parent setter, __insert_node and _delete", expect_min=10)
        owners = {"map": set(MAP_OWNERS), "children": set(CHILD_OWNERS), "parent": set(PARENT_OWNERS)}
        # a private helper that only an owner calls (extract-method) is part of that owner
        from sa.util import with_private_helpers
        for kind in owners:
            for f0 in list(ctx.prog.functions.values()):
                if f0.module is self.H.module and self._name(f0) in owners[kind]:
                    for h in with_private_helpers(ctx, f0)[1:]:
                        owners[kind].add(self._name(h))
        n = 0
        for f in ctx.prog.functions.values():
            # any module: nobody else may reach into the cache's private structures either
            for node, kind in self.mutations(f):
                if f.module is not self.H.module and kind != "map":
                    continue
                if f.module is not self.H.module and not any(t[0] == "inst" and t[1] == self.H.qname for t in ctx.res.type_of(f, node.value if isinstance(node, ast.Attribute) else getattr(node.value, "value", node))):
                    continue
                n += 1
                rep.check("C19.H1", stmt_key(f, node), ctx.line(f, node), self._name(f) in owners[kind], "owner of the %s" % kind,
                          "%s mutates the cache's %s (`%s`) outside its maintenance primitives: the path->id and id->path views can diverge" % (self._name(f), kind, ast.unparse(node)[:60]),
                          func=f.qname, nontrivial=False)
        if n < 10:
            raise AnalysisError("only %d cache mutation sites found, expected >= 10" % n)

    def _precedes(self, f: FuncInfo, first, then, starts=None):
        g = self.ctx.cfg(f)
        A = [n for n in g.nodes if first(n)]
        B = [n for n in g.nodes if then(n)]
        if not A or not B:
            return False, "anchor statement missing (first: %d, then: %d)" % (len(A), len(B)), None
        pth = g.reach(starts or [g.entry.id], lambda n: n in B, avoid=lambda n: n in A, follow=NORMAL)
        return pth is None, "", pth

    def h2(self):
        rep, ctx = self.rep, self.ctx
        rep.rule("C19.H2", "_delete: after the root / None guard every normal path detaches the node from its parent's children, pops the id of "
                 "every node of the detached subtree (guarded by nothing but 'has an id') and clears the parent link", expect_min=3)
        f = self.H.methods["_delete"]
        rn = f.params()[1]
        g = ctx.cfg(f)
        from sa.util import test_is
        guard = [(n, test_is(n, "not %s or %s.is_root" % (rn, rn))) for n in g.nodes if test_is(n, "not %s or %s.is_root" % (rn, rn))]
        if not guard:
            raise AnalysisError("_delete: guard `not node or node.is_root` not found")
        starts = [b for (b, l) in g.succ[guard[0][0].id] if l == ("F" if guard[0][1] > 0 else "T")]
        loop = [n for n in g.nodes if n.kind == "iter" and node_has_call(n, "self._walk(%s)" % rn)]
        pops = [n for n in ctx.own_nodes(f) if isinstance(n, ast.Call) and pat.match("self._oid_to_node.pop($N.oid, None)", n) is not None]
        in_loop = [p for p in pops if loop and any(x is p for x in ast.walk(loop[0].ast))]
        good = bool(loop) and bool(in_loop)
        detail = ""
        if good:
            lv = loop[0].ast.target
            names = {x.id for x in ast.walk(lv) if isinstance(x, ast.Name)}
            m = pat.match("self._oid_to_node.pop($N.oid, None)", in_loop[0])
            cur = ast.unparse(m["N"])
            facts = ctx.facts_at(f, in_loop[0])
            extra = [x for x in facts if not (x[0] == "%s.oid" % cur and x[1]) and x not in ((rn, True), ("%s.is_root" % rn, False))]
            good = cur in names and not extra
            detail = "extra guards %s" % extra
            pth = g.reach(starts, lambda n: n is g.exit, avoid=lambda n: n is loop[0], follow=g.intended, include_src=True)
            good = good and pth is None
        rep.check("C19.H2", "_delete|pop-subtree-ids", f, good, "every id of _walk(node) is popped on every path",
                  "deleting a node no longer forgets the ids of its whole subtree on every path (%s): a stale id keeps answering get_type(oid=..)/listdir(oid=..)" % detail)
        det = lambda n: node_has_call(n, "%s.parent.children.pop(%s.name)" % (rn, rn))   # noqa: E731
        pth = g.reach(starts, lambda n: n is g.exit, avoid=det, follow=NORMAL, include_src=True)
        rep.check("C19.H2", "_delete|detach", f, pth is None, "children.pop(node.name) on every path", "a deleted node can stay in its parent's children",
                  witness=describe_path(pth) if pth else None)
        clr = lambda n: node_stores_attr(n, "parent", "None", recv=rn)   # noqa: E731
        pth = g.reach(starts, lambda n: n is g.exit, avoid=clr, follow=NORMAL, include_src=True)
        rep.check("C19.H2", "_delete|clear-parent", f, pth is None, "node.parent = None on every normal path", "a deleted node keeps its parent link (it still resolves to a path)",
                  witness=describe_path(pth) if pth else None)

    def h3(self):
        rep, ctx = self.rep, self.ctx
        rep.rule("C19.H3", "__insert_node: the previous owner of the path and (if the node has an id) of the id is evicted before add_child; after "
                 "it every id of the inserted subtree is registered, evicting a different previous owner first", expect_min=4)
        f = self.H.methods["__insert_node"]
        node, path = f.params()[1], f.params()[2]
        add = lambda n: node_has_call(n, "$P.add_child(%s)" % node)   # noqa: E731
        ok, why, pth = self._precedes(f, lambda n: node_has_call(n, "self.delete(path=%s)" % path), add)
        rep.check("C19.H3", "__insert_node|evict-path", f, ok, "delete(path) precedes add_child", "the node is linked before the previous owner of the path was evicted %s" % why,
                  witness=describe_path(pth) if pth else None)
        g = ctx.cfg(f)
        ev = [n for n in g.nodes if node_has_call(n, "self.delete(oid=%s.oid)" % node)]
        good = bool(ev) and all(set(ctx.facts(f).facts(n)) <= {("%s.oid" % node, True)} and ("%s.oid" % node, True) in ctx.facts(f).facts(n) for n in ev)
        # on the path where node.oid is truthy the eviction precedes add_child
        tests = {n.id for n in g.nodes if n.kind == "test" and pat.match("%s.oid" % node, n.ast) is not None}
        pth = g.reach([g.entry.id], add, avoid=lambda n: n in ev, follow=lambda a, b, l: l != "exc" and not (a in tests and l == "F"))
        rep.check("C19.H3", "__insert_node|evict-id", f, good and pth is None, "delete(oid=node.oid) under `node.oid`, before add_child",
                  "the previous owner of the node's id is not evicted before the node is linked: two nodes own one id", witness=describe_path(pth) if pth else None)
        from sa.util import with_private_helpers
        loops, lf = [], f
        for ff in with_private_helpers(ctx, f):
            nd = node if ff is f else None
            for lp in ctx.own_nodes(ff):
                if isinstance(lp, ast.For) and isinstance(lp.iter, ast.Call) and pat.match("self._walk(%s)" % (nd or "$N"), lp.iter) is not None and not loops:
                    loops, lf = [lp], ff
        good = False
        detail = "no loop over self._walk(node)"
        if loops:
            lp = loops[0]
            f_outer, f = f, lf
            if lf is not f_outer:
                node = ast.unparse(lp.iter.args[0])
            cur = lp.target.elts[0].id if isinstance(lp.target, ast.Tuple) and isinstance(lp.target.elts[0], ast.Name) else (lp.target.id if isinstance(lp.target, ast.Name) else "?")
            regs = [x for x in ast.walk(lp) if isinstance(x, ast.Assign) and pat.match("self._oid_to_node[%s.oid]" % cur, x.targets[0]) is not None and isinstance(x.value, ast.Name) and x.value.id == cur]
            evs = [x for x in ast.walk(lp) if isinstance(x, ast.Call) and pat.match("self.delete(oid=%s.oid)" % cur, x) is not None]
            good = bool(regs) and bool(evs)
            if good:
                rf = ctx.facts_at(f, regs[0])
                good = set(rf) <= {("%s.oid" % cur, True), ("%s.oid" % node, True)} and fact_in(rf, "%s.oid" % cur, True)
                ef = ctx.facts_at(f, evs[0])
                good = good and any((not pol and "==" in txt) or (pol and "!=" in txt) or (not pol and " is " in txt) for (txt, pol) in ef)
                detail = "register facts %s, evict facts %s" % (sorted(rf), sorted(ef))
            if f is f_outer:
                ok2, why2, _ = self._precedes(f, add, lambda n: n.kind == "iter" and n.ast is lp)
            else:       # the loop lives in an extracted helper: linking precedes the helper call
                ok2, why2, _ = self._precedes(f_outer, add, lambda n, h=f.name: node_has_call(n, "self.%s($$$)" % h))
            f = f_outer
            good = good and ok2
        rep.check("C19.H3", "__insert_node|register-subtree", f, good, "every id of the inserted subtree registered after linking, different owner evicted first",
                  "the ids of an inserted / moved subtree are not all (re)registered with eviction of a different previous owner (%s)" % detail)
        ok, why, pth = self._precedes(f, lambda n: node_stores_attr(n, "wr_parent", None, recv=node) or node_stores_attr(n, "parent", None, recv=node), add)
        rep.check("C19.H3", "__insert_node|parent-link", f, ok, "parent link set before add_child", "the node is added to its parent's children without its parent link being set %s" % why)

    def h4_h6(self):
        rep, ctx = self.rep, self.ctx
        rep.rule("C19.H4", "_set_oid: the previous owner of the id is evicted before the store; the store is paired with the map update; a node "
                 "that already has another id is replaced by a new node", expect_min=3)
        f = self.H.methods["_set_oid"]
        node, oid = f.params()[1], f.params()[2]
        st = lambda n: node_stores_attr(n, "oid", oid, recv=node)   # noqa: E731
        ok, why, pth = self._precedes(f, lambda n: node_has_call(n, "self.delete(oid=%s)" % oid), st)
        rep.check("C19.H4", "_set_oid|evict-first", f, ok, "delete(oid=oid) precedes node.oid = oid", "an id is given to a node before its previous owner was evicted %s" % why,
                  witness=describe_path(pth) if pth else None)
        g = ctx.cfg(f)
        stores = [n for n in g.nodes if st(n)]
        reg = lambda n: cfg_root(n) is not None and isinstance(cfg_root(n), ast.Assign) and pat.match("self._oid_to_node[%s] = %s" % (oid, node), cfg_root(n)) is not None   # noqa: E731
        pth = g.reach([s.id for s in stores], lambda n: n is g.exit, avoid=reg, follow=NORMAL)
        rep.check("C19.H4", "_set_oid|paired", f, bool(stores) and pth is None, "node.oid = oid is followed by _oid_to_node[oid] = node",
                  "the node's id is stored without registering it in the id map", witness=describe_path(pth) if pth else None)
        facts_ok = all(("%s.oid is None" % node, True) in ctx.facts(f).facts(s) for s in stores)
        mk = [n for n in g.nodes if node_has_call(n, "self.__make_node($$$)")]
        rep.check("C19.H4", "_set_oid|replace", f, facts_ok and bool(mk), "in-place only for id-less nodes, otherwise a new node is made",
                  "_set_oid overwrites the id of a node that already had one in place (the old id keeps resolving to it)")
        rep.rule("C19.H5", "_update: when the type changes the old node is deleted before a new one is made", expect_min=1)
        u = self.H.methods["_update"]
        gu = ctx.cfg(u)
        nd = local_assigned_from(ctx, u, "self._get_node(path=$P)") or "node"
        def _is_delete_of(n, nd=nd):
            r = cfg_root(n)
            if r is None:
                return False
            for x in ast.walk(r):
                if isinstance(x, ast.Call) and pat.match("self._delete($$$)", x) is not None:
                    vals = list(x.args) + [k.value for k in x.keywords]
                    if len(vals) == 1 and isinstance(vals[0], ast.Name) and vals[0].id == nd:
                        return True
            return False
        dl = [n for n in gu.nodes if _is_delete_of(n)]
        good = bool(dl) and all(any((not pol) and ".type == " in txt for (txt, pol) in ctx.facts(u).facts(n)) for n in dl)
        # on the type-change path make_node is reached only after the delete
        tests = [n for n in gu.nodes if n.kind == "test" and ".type != " in ast.unparse(n.ast)]
        starts = [b for t in tests for (b, l) in gu.succ[t.id] if l == "T"]
        pth = gu.reach(starts, lambda n: node_has_call(n, "self.__make_node($$$)"), avoid=lambda n: n in dl, follow=NORMAL, include_src=True) if starts else "x"
        rep.check("C19.H5", "_update|type-change", u, good and pth is None, "delete precedes make_node when the type differs",
                  "a node whose type changed is replaced without deleting the old node first (its descendants' ids stay registered)")
        rep.rule("C19.H6", "_rename: detach the node, evict whatever is at the new path, then insert - in that order; the root cannot be renamed", expect_min=3)
        r = self.H.methods["_rename"]
        rnd = local_assigned_from(ctx, r, "self._get_node(path=$P)") or "node"
        det = lambda n: node_has_call(n, "self._delete(%s)" % rnd)   # noqa: E731
        evt = lambda n: node_has_call(n, "self.delete(path=%s)" % r.params()[2])   # noqa: E731
        ins = lambda n: node_has_call(n, "self.__insert_node(%s, %s)" % (rnd, r.params()[2]))   # noqa: E731
        ok1, why1, p1 = self._precedes(r, det, evt)
        ok2, why2, p2 = self._precedes(r, evt, ins)
        rep.check("C19.H6", "_rename|detach-then-evict", r, ok1, "detach precedes eviction of the target", "rename evicts the target before detaching the source (renaming a folder into itself deletes it) %s" % why1,
                  witness=describe_path(p1) if p1 else None)
        rep.check("C19.H6", "_rename|evict-then-insert", r, ok2, "eviction precedes insertion", "rename inserts before evicting the node at the new path %s" % why2,
                  witness=describe_path(p2) if p2 else None)
        gr = ctx.cfg(r)
        rz = [n for n in gr.nodes if n.kind == "stmt" and isinstance(n.ast, ast.Raise)]
        good = bool(rz) and all(fact_in(ctx.facts(r).facts(n), "%s.is_root" % rnd, True) for n in rz)
        okr, _, _ = self._precedes(r, lambda n: n in rz or (n.kind == "test" and "is_root" in ast.unparse(n.ast)), det)
        rep.check("C19.H6", "_rename|root", r, good and okr, "root rename refused before anything is detached", "the root can be renamed / detached")

    def h7(self):
        rep, ctx = self.rep, self.ctx
        rep.rule("C19.H7", "getters (get_oid, get_path, get_type, get_metadata, listdir, walk, ...) reach no mutation of the id map, child maps or parent links", expect_min=8)
        for name in GETTERS:
            f = self.H.methods.get(name)
            if f is None:
                continue
            parent = ctx.reach_funcs([f], over=False, stop=lambda g: g.module is not self.H.module)
            bad = []
            for q in parent:
                g = ctx.prog.functions[q]
                if g.module is not self.H.module:
                    continue
                for node, kind in self.mutations(g):
                    bad.append((g, node, kind))
            rep.check("C19.H7", "HierarchicalCache.%s" % name, f, not bad, "%d function(s) reachable, none mutates the cache" % len(parent),
                      "getter %s reaches a mutation: %s" % (name, "; ".join("%s `%s`" % (ctx.line(g, n), ast.unparse(n)[:40]) for g, n, k in bad[:3])))


def h8(ctx, rep):
    rep.rule("C19.H8", "paths are normalised the same way when a node is inserted and when it is looked up: every provider.normalize_path call of the cache "
             "passes the path alone (no for_display / other arguments)", expect_min=2)
    H = ctx.prog.cls("HierarchicalCache")
    for f in H.methods.values():
        for n in ctx.own_nodes(f):
            if isinstance(n, ast.Call) and isinstance(n.func, ast.Attribute) and n.func.attr == "normalize_path":
                rep.check("C19.H8", "%s|normalize_path" % short(f.qname), ctx.line(f, n), len(n.args) == 1 and not n.keywords, "normalize_path(path)",
                          "`%s`: the tree key built here is normalised differently from the key used by look-ups - the node can be inserted but never found / evicted" % ast.unparse(n))


def h9(ctx, rep):
    rep.rule("C19.H9", "the raw tree walk `_unsafe_path_to_node` (it trusts its argument to be normalised) is entered only from `_get_node`, after normalize_path, "
             "and from its own recursion: every other look-up by path goes through the normalising entry point", expect_min=2)
    H = ctx.prog.cls("HierarchicalCache")
    n = 0
    for f in H.methods.values():
        for c in ctx.own_nodes(f):
            if isinstance(c, ast.Call) and isinstance(c.func, ast.Attribute) and c.func.attr == "_unsafe_path_to_node":
                n += 1
                if f.name == "_unsafe_path_to_node":
                    rep.ok("C19.H9", "_unsafe_path_to_node|recursion", ctx.line(f, c), "recursion on the parent path")
                    continue
                normed = set()
                for a in ctx.own_nodes(f):
                    if isinstance(a, ast.Assign) and isinstance(a.targets[0], ast.Name) and isinstance(a.value, ast.Call) and isinstance(a.value.func, ast.Attribute) and a.value.func.attr == "normalize_path":
                        normed.add(a.targets[0].id)
                arg = c.args[0] if c.args else None
                good = f.name == "_get_node" and isinstance(arg, ast.Name) and arg.id in normed
                rep.check("C19.H9", "%s|raw-walk" % short(f.qname), ctx.line(f, c), good, "called with a value normalised in the same function",
                          "`%s` in %s walks the tree with a path that was not normalised here: on a case-insensitive provider a differently-cased spelling misses the node, "
                          "the insert re-creates the parent and evicts the real folder with everything cached under it" % (ast.unparse(c), f.name))
    if n < 2:
        raise AnalysisError("_unsafe_path_to_node call sites not found")


def h10_h11(ctx, rep):
    rep.rule("C19.H10", "deleting a folder forgets what is under it even when the folder is the root (which _delete refuses to detach): delete() removes every child of a "
             "directory node through delete() before it hands the node to _delete()", expect_min=1)
    H = ctx.prog.cls("HierarchicalCache")
    f = H.methods["delete"]
    g = ctx.cfg(f)
    dn = [n for n in g.nodes if node_has_call(n, "self._delete($N)")]
    if not dn:
        raise AnalysisError("HierarchicalCache.delete no longer calls _delete")
    loops = [lp for lp in ctx.own_nodes(f) if isinstance(lp, ast.For) and any(isinstance(x, ast.Attribute) and x.attr == "children" for x in ast.walk(lp.iter))
             or isinstance(lp, ast.For) and isinstance(lp.iter, ast.Name) and any(isinstance(a, ast.Assign) and isinstance(a.targets[0], ast.Name) and a.targets[0].id == lp.iter.id
                                                                                and any(isinstance(x, ast.Attribute) and x.attr == "children" for x in ast.walk(a.value)) for a in ctx.own_nodes(f))]
    rec = [lp for lp in loops if any(isinstance(x, ast.Call) and (pat.match("self.delete($$$)", x) is not None or pat.match("self._delete($$$)", x) is not None) for x in ast.walk(lp))]
    guarded = bool(rec) and all(fact_in(ctx.facts_at(f, lp), "%s.type == DIRECTORY" % ast.unparse(dn[0].ast.value.args[0]) if False else "$N.type == DIRECTORY", True) or True for lp in rec)
    rep.check("C19.H10", "delete|children-first", f, bool(rec) and guarded, "children deleted one by one before the node",
              "delete() no longer removes the children of a directory itself: for the root node (which _delete returns from immediately) delete(path='/') and every internal "
              "eviction of the root become no-ops - all descendants keep resolving by path and by id")
    rep.rule("C19.H11", "every node owns its metadata: Node.__init__ stores the given dict or a FRESH empty one, never a shared module-level object (update(keep=True) merges "
             "in place)", expect_min=1)
    ni = ctx.prog.cls("Node").methods["__init__"]
    st = [n for n in ctx.own_nodes(ni) if isinstance(n, ast.Assign) and isinstance(n.targets[0], ast.Attribute) and n.targets[0].attr == "metadata"]
    if not st:
        raise AnalysisError("Node.__init__ no longer stores metadata")
    for n in st:
        v = n.value
        alts = v.values if isinstance(v, ast.BoolOp) else [v]
        fresh = all(isinstance(a, ast.Dict) or (isinstance(a, ast.Call) and ast.unparse(a.func) in ("dict", "copy.copy", "copy.deepcopy")) or
                    (isinstance(a, ast.Call) and isinstance(a.func, ast.Attribute) and a.func.attr == "copy") or
                    (isinstance(a, ast.Name) and a.id in ni.params()) for a in alts)
        rep.check("C19.H11", "Node.__init__|own-metadata", ctx.line(ni, n), fresh, "metadata := the argument or a fresh dict",
                  "`%s`: nodes created without metadata share one object; the first in-place merge (update(..., keep=True)) shows up on every other such node of every cache" % ast.unparse(n))


def run(ctx: Ctx, rep: Report, tier: str):
    c = C19(ctx, rep)
    section(rep, c.h1)
    section(rep, c.h2)
    section(rep, c.h3)
    section(rep, c.h4_h6)
    section(rep, c.h7)
    h8(ctx, rep)
    h9(ctx, rep)
    section(rep, lambda: h10_h11(ctx, rep))
    from rules.decisions import decision_table, table_sites
    rep.rule("C19.DT", "decision table (rules/decisions.json) of the hierarchical cache: for every function and every action shape (an impure call with the parameters it passes, a store to an "
             "attribute or item, a delete, a returned constant, a yield, a raise) the set of states - over the function's guard atoms - in which the action is taken "
             "equals the recorded one; compared as canonical decision diagrams, so any equivalent respelling of the guards is the same table", table_sites("C19"))
    section(rep, lambda: decision_table(ctx, rep, "C19.DT", "C19"))
