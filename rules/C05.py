"""C05 - conflict-resolution contract.

Decided: the resolver is called at one site, once, outside any loop (V1); temporary errors propagate, every other failure
and every malformed answer falls back (V2-V4) to 'remote wins, keep the loser' (V5); identical content is merged without
calling it (V6); conflict handling is entered only on a hash conflict (V7); each handle is built with the provider of its
own side (V8); `keep=False` uploads over the loser, `keep=True` renames it (V9).
Not decided: the final contents on both sides; the unbounded '.conflicted' creation the property mentions.
"""
from __future__ import annotations

import ast

from sa.model import AnalysisError
from sa.ctx import Ctx, short, stmt_key
from sa.cfg import NORMAL, describe_path
from sa.report import Report, section
from sa.sides import SideAnalysis, show
from sa.util import cfg_root, node_has_call, has_fact, fact_in, local_assigned_from
from sa import pat


def _in_loop(f_nodes, node) -> bool:
    return any(isinstance(lp, (ast.For, ast.While)) and any(x is node for x in ast.walk(lp)) for lp in f_nodes)


class C05:
    def __init__(self, ctx: Ctx, rep: Report):
        self.ctx, self.rep = ctx, rep

    def run(self):
        rep, ctx, p = self.rep, self.ctx, self.ctx.prog
        rep.rule("C05.V1", "the application's resolver has exactly one call site (in __safe_call_resolver), which in turn has exactly one call "
                 "site (in resolve_conflict); neither is inside a loop", expect_min=2)
        sc = p.func("SyncManager.__safe_call_resolver")
        sites = []
        for f in ctx.prog.functions.values():
            for n in ctx.own_nodes(f):
                if isinstance(n, ast.Call) and pat.match("self._resolve_conflict($$$)", n) is not None:
                    sites.append((f, n))
        ok = len(sites) == 1 and sites[0][0] is sc and not _in_loop(ctx.own_nodes(sc), sites[0][1])
        rep.check("C05.V1", "resolver|call-site", sc, ok, "one call, not in a loop", "the resolver is called from %d site(s) / inside a loop: %s" % (len(sites), [ctx.line(f, n) for f, n in sites]))
        rc = p.func("SyncManager.resolve_conflict")
        callers = [s for s in ctx.callers(sc) if s.kind == "call"]
        ok = len(callers) == 1 and callers[0].func is rc and not _in_loop(ctx.own_nodes(rc), callers[0].node)
        rep.check("C05.V1", "__safe_call_resolver|call-site", rc, ok, "one call in resolve_conflict, not in a loop",
                  "__safe_call_resolver is called from %s" % [s.loc() for s in callers])
        # V2 / V3
        rep.rule("C05.V2", "around the resolver call: CloudTemporaryError is re-raised; any other exception is swallowed (fallback)", expect_min=2)
        call = sites[0][1] if sites else None
        tries = [t for t in ctx.own_nodes(sc) if isinstance(t, ast.Try) and call is not None and any(x is call for b in t.body for x in ast.walk(b))]
        temp = exc = None
        for t in tries:
            for h in t.handlers:
                names = [ast.unparse(x).split(".")[-1] for x in (h.type.elts if isinstance(h.type, ast.Tuple) else [h.type])] if h.type is not None else ["BaseException"]
                reraises = any(isinstance(x, ast.Raise) for b in h.body for x in ast.walk(b))
                if "CloudTemporaryError" in names:
                    temp = reraises
                if "Exception" in names or "BaseException" in names:
                    exc = not reraises
        order_ok = False
        for t in tries:
            ns = [ast.unparse(h.type).split(".")[-1] if h.type is not None else "BaseException" for h in t.handlers]
            if "CloudTemporaryError" in ns and "Exception" in ns:
                order_ok = ns.index("CloudTemporaryError") < ns.index("Exception")
        rep.check("C05.V2", "resolver|temporary-propagates", sc, temp is True and order_ok, "CloudTemporaryError re-raised (tested before Exception)",
                  "a temporary error from the resolver is swallowed: the conflict is 'resolved' by the fallback instead of being retried")
        rep.check("C05.V2", "resolver|others-fall-back", sc, exc is True, "other exceptions fall back", "a failing resolver aborts the sync step instead of falling back to remote-wins")
        # V4 / V5
        rep.rule("C05.V4", "malformed answers (not a tuple, wrong length, first element not file-like) become None; None falls back to the REMOTE handle with keep=True", expect_min=2)
        ret = local_assigned_from(ctx, sc, "self._resolve_conflict($$$)")
        fhs = sc.params()[1]
        if ret is None:
            raise AnalysisError("__safe_call_resolver: the resolver's answer is not bound to a single local")
        nones = [n for n in ctx.own_nodes(sc) if isinstance(n, ast.Assign) and isinstance(n.targets[0], ast.Name) and n.targets[0].id == ret and isinstance(n.value, ast.Constant) and n.value.value is None
                 and ctx.facts_at(sc, n)]
        kinds = set()
        for n in nones:
            for (txt, pol) in ctx.facts_at(sc, n):
                if "isinstance(%s, tuple)" % ret in txt and not pol:
                    kinds.add("not-tuple")
                if "len(%s)" % ret in txt:
                    kinds.add("bad-length")
                if "(%s[0])" % ret in txt and not pol:
                    kinds.add("not-file-like")
                # two malformed-answer tests merged with `or`: the arm is taken when either fails
                if pol and " or " in txt:
                    if "not isinstance(%s, tuple)" % ret in txt:
                        kinds.add("not-tuple")
                    if "(%s[0])" % ret in txt and "not " in txt.split("(%s[0])" % ret)[0].split(" or ")[-1]:
                        kinds.add("not-file-like")
        rep.check("C05.V4", "resolver|malformed", sc, kinds == {"not-tuple", "bad-length", "not-file-like"}, "three malformed-answer arms -> None", "malformed-answer arms present: %s" % sorted(kinds))
        fb = []     # (assignment, tuple value, extra facts of a conditional expression's arm)
        for n in ctx.own_nodes(sc):
            if isinstance(n, ast.Assign) and isinstance(n.targets[0], ast.Name) and n.targets[0].id == ret:
                if isinstance(n.value, ast.Tuple):
                    fb.append((n, n.value, set()))
                elif isinstance(n.value, ast.IfExp) and isinstance(n.value.body, ast.Tuple) and isinstance(n.value.orelse, ast.Tuple):
                    from sa.guards import literals as _lits
                    fb.append((n, n.value.body, _lits(n.value.test, True)))
                    fb.append((n, n.value.orelse, _lits(n.value.test, False)))
        good = bool(fb)
        for n, tup, extra in fb:
            facts = set(ctx.facts_at(sc, n)) | extra
            elts = tup.elts
            keep_true = len(elts) == 2 and isinstance(elts[1], ast.Constant) and elts[1].value is True
            m = pat.match("%s[$I]" % fhs, elts[0]) if len(elts) == 2 else None
            idx = m["I"].value if m and isinstance(m["I"], ast.Constant) else None
            remote = fact_in(facts, "%s[0].side == REMOTE" % fhs, idx == 0)
            good = good and keep_true and remote and fact_in(facts, "%s is None" % ret, True)
        rep.check("C05.V4", "resolver|fallback", sc, good, "ret is None -> (REMOTE handle, keep=True)", "the fallback is no longer 'remote wins, loser kept'")
        # V6 / V7
        rep.rule("C05.V6", "identical content is merged silently: in handle_split_conflict the resolver is unreachable from the equal-hash arm; sync() "
                 "enters conflict handling only on hash_conflict()", expect_min=2)
        hs = p.func("SyncManager.handle_split_conflict")
        g = ctx.cfg(hs)
        eq = [n for n in g.nodes if n.kind == "test" and isinstance(n.ast, ast.Compare) and isinstance(n.ast.ops[0], ast.Eq) and "hash" in ast.unparse(n.ast)]
        res = [n for n in g.nodes if node_has_call(n, "self.resolve_conflict($$$)")]
        if not eq or not res:
            raise AnalysisError("handle_split_conflict: equal-hash test / resolve_conflict call not found")
        starts = [b for t in eq for (b, l) in g.succ[t.id] if l == "T"]
        pth = g.reach(starts, lambda n: n in res, follow=NORMAL, include_src=True)
        rep.check("C05.V6", "handle_split_conflict|equal-hash", hs, pth is None, "equal content returns before the resolver", "the resolver is called although both sides hold identical content",
                  witness=describe_path(pth) if pth else None)
        s = p.func("SyncManager.sync")
        calls = ctx.calls(s, "handle_hash_conflict")
        ok = bool(calls) and all(fact_in(ctx.facts_at(s, c), "%s.hash_conflict()" % s.params()[1], True) for c in calls)
        rep.check("C05.V6", "sync|hash_conflict", s, ok, "conflict handling only under hash_conflict()", "conflict handling is entered without a hash conflict")
        # V8
        rep.rule("C05.V8", "each ResolveFile handle is built with the provider of its side state's own side", expect_min=1)
        sa_ = SideAnalysis(ctx)
        n8 = 0
        for f in ctx.prog.functions.values():
            if f.module.name != "cloudsync.sync.manager":
                continue
            for o in sa_.obligations(f):
                if o.kind == "resolve-file":
                    n8 += 1
                    rep.check("C05.V8", stmt_key(f, o.node), ctx.line(f, o.node), o.decided and not o.violated, o.what + " : " + show(o.actual),
                              "%s: the handle reads side %s through the provider of side %s (the resolver is shown the wrong side's bytes)" % (o.what, show(o.required), show(o.actual)))
        if n8 == 0:
            raise AnalysisError("no ResolveFile construction found")
        # V9
        rep.rule("C05.V9", "in resolve_conflict the losing handle (fh is not rfh) is overwritten by upload when keep is false and renamed away when keep is true", expect_min=2)
        from sa.util import with_private_helpers
        rcs = with_private_helpers(ctx, rc)
        ups_f = [(ff, n) for ff in rcs for n in ctx.own_nodes(ff) if isinstance(n, ast.Call) and pat.match("self.providers[$L.side].upload($L.oid, $$$)", n) is not None]
        ups = [n for _, n in ups_f]
        fin = {id(n): ff for ff, n in ups_f}
        rns = ctx.calls(rc, "_resolve_rename")
        keep = local_assigned_from(ctx, rc, "self.__safe_call_resolver($$$)", 1) or "?"
        fh = local_assigned_from(ctx, rc, "self.__safe_call_resolver($$$)", 0) or "?"
        ok = bool(ups) and all(fact_in(ctx.facts_inlined(fin[id(u)], u), keep, False) and has_fact(ctx.facts_inlined(fin[id(u)], u), "%s is $R" % fh, False) for u in ups)
        rep.check("C05.V9", "resolve_conflict|upload", rc, ok, "upload over the loser under not keep", "the loser is overwritten under the wrong condition (facts %s)" % [sorted(ctx.facts_inlined(fin[id(u)], u)) for u in ups])
        ok = bool(rns) and all(fact_in(ctx.facts_at(rc, r), keep, True) and has_fact(ctx.facts_at(rc, r), "%s is $R" % fh, False) for r in rns)
        rep.check("C05.V9", "resolve_conflict|rename", rc, ok, "rename the loser under keep", "the loser is renamed under the wrong condition (facts %s)" % [sorted(ctx.facts_at(rc, r)) for r in rns])
        # the uploaded bytes are the winner's
        def winner_arg(u):
            ff = fin[id(u)]
            names = {x.id for a in u.args[1:] for x in ast.walk(a) if isinstance(x, ast.Name)}
            if ff is rc:
                return fh in names
            # in an extracted helper: the parameter that receives the winner handle at the (single) call site
            h = ctx.helper_of(ff)
            if h is None:
                return False
            ps = ff.params()[1:]
            return any(isinstance(a, ast.Name) and a.id == fh and i < len(ps) and ps[i] in names for i, a in enumerate(h[1].args))
        ok = bool(ups) and all(winner_arg(u) for u in ups)
        rep.check("C05.V9", "resolve_conflict|winner-bytes", rc, ok, "the winner handle is what gets uploaded", "the upload over the loser does not send the winning handle", nontrivial=False)


    def v10(self):
        rep, ctx = self.rep, self.ctx
        rep.rule("C05.V10", "the bytes shown to the resolver are the side's CURRENT content: every handle's temp file is re-keyed by make_temp_file "
                 "(name = f(path, current hash), C10.T7) unconditionally before the ResolveFile is built; a same-content check compares hashes of one side", expect_min=2)
        g = ctx.prog.functions.get("cloudsync.sync.manager.SyncManager.__resolve_file_likes.<locals>.Guard.__enter__")
        if g is None:
            raise AnalysisError("Guard.__enter__ of __resolve_file_likes vanished")
        cfgg = ctx.cfg(g)
        mk = [n for n in cfgg.nodes if node_has_call(n, "self.make_temp_file($S)")]
        rf = [n for n in cfgg.nodes if node_has_call(n, "ResolveFile($$$)")]
        if not rf:
            raise AnalysisError("Guard.__enter__: ResolveFile construction not found")
        loops = [n for n in cfgg.nodes if n.kind == "iter"]
        starts = [b for lp in loops for (b, l) in cfgg.succ[lp.id] if l == "T"] or [cfgg.entry.id]
        pth = cfgg.reach(starts, lambda n: n in rf, avoid=lambda n: n in mk, follow=NORMAL, include_src=True)
        rep.check("C05.V10", "Guard.__enter__|fresh-temp", g, bool(mk) and pth is None, "make_temp_file(ss) before every ResolveFile(ss, ..)",
                  "a handle can be built on a temp file left over from an earlier attempt (make_temp_file skipped): the resolver is shown stale bytes",
                  witness=describe_path(pth) if pth else None)
        from sa.sides import SideAnalysis, show
        sa_ = SideAnalysis(ctx)
        hs = ctx.prog.func("SyncManager.handle_split_conflict")
        obs = [o for o in sa_.obligations(hs) if o.kind == "compare" and "hash" in o.what]
        if not obs:
            raise AnalysisError("handle_split_conflict: hash comparison not found")
        for o in obs:
            rep.check("C05.V10", "handle_split_conflict|" + o.what[:50], ctx.line(hs, o.node), o.decided and not o.violated, "%s: one side (%s)" % (o.what, show(o.actual)),
                      "%s: hash of side %s compared with hash of side %s - identical content is not recognised (the resolver is called for equal files)" % (o.what, show(o.required), show(o.actual)))


    def v11(self):
        rep, ctx = self.rep, self.ctx
        rep.rule("C05.V11", "the resolver's handle is rewound before EVERY upload/create that sends it: on every path from the function entry, and from any earlier "
                 "upload/create of the same handle (including the same call on the next loop iteration), `<handle>.seek(0)` precedes the call", expect_min=3)
        n = 0
        from sa.util import with_private_helpers
        work = []
        for qn in ("SyncManager.resolve_conflict", "SyncManager.__resolver_merge_upload"):
            f0 = ctx.prog.func(qn)
            h0 = local_assigned_from(ctx, f0, "self.__safe_call_resolver($$$)", 0) if qn.endswith("resolve_conflict") else f0.params()[2]
            if not h0:
                raise AnalysisError("%s: resolver handle not identified" % qn)
            found = 0
            for ff in with_private_helpers(ctx, f0):
                hn = h0
                if ff is not f0:
                    # the helper's parameter that receives the handle at its single call site
                    hp = ctx.helper_of(ff)
                    hn = None
                    if hp is not None:
                        ps = ff.params()[1:]
                        for i, a in enumerate(hp[1].args):
                            if isinstance(a, ast.Name) and a.id == h0 and i < len(ps):
                                hn = ps[i]
                    if hn is None:
                        continue
                work.append((qn, ff, hn, ff is f0))
        seen_consumer = set()
        for qn, f, hname, is_top in work:
            g = ctx.cfg(f)
            def consumer(nd):
                r = cfg_root(nd)
                if r is None:
                    return False
                for c_ in ast.walk(r):
                    if isinstance(c_, ast.Call) and isinstance(c_.func, ast.Attribute) and c_.func.attr in ("upload", "create") and len(c_.args) >= 2 \
                            and any(isinstance(x, ast.Name) and x.id == hname for x in ast.walk(c_.args[1])):
                        return True
                return False
            cons = [nd for nd in g.nodes if nd.kind in ("stmt", "test") and consumer(nd)]
            if cons:
                seen_consumer.add(qn)
            if not cons:
                continue
            seek = lambda nd, h=hname: node_has_call(nd, "%s.seek(0)" % h)   # noqa: E731
            for c_ in cons:
                n += 1
                pth = g.reach([g.entry.id] + [x.id for x in cons], lambda nd, c_=c_: nd is c_, avoid=seek, follow=NORMAL)
                rep.check("C05.V11", stmt_key(f, c_.ast), ctx.line(f, c_.ast), pth is None, "seek(0) before the upload on every path",
                          "the handle can reach this upload/create without being rewound (after the resolver or an earlier upload read it): the peer receives truncated / empty content",
                          witness=describe_path(pth) if pth else None)
        for qn in ("SyncManager.resolve_conflict", "SyncManager.__resolver_merge_upload"):
            if qn not in seen_consumer:
                raise AnalysisError("%s: no upload/create of the resolver handle found" % qn)

    def v14(self):
        rep, ctx = self.rep, self.ctx
        rep.rule("C05.V14", "whatever the resolver returns, __safe_call_resolver hands back a checked answer: every (feasible) path from the resolver call to a return of "
                 "its answer passes the three shape checks (tuple, length 2, file-like first element) or the remote-wins default - falsy garbage ((), 0, False, '') included", 1)
        from sa.pathsens import find_path
        sc = ctx.prog.func("SyncManager.__safe_call_resolver")
        g = ctx.cfg(sc)
        ret = local_assigned_from(ctx, sc, "self._resolve_conflict($$$)")
        if ret is None:
            raise AnalysisError("__safe_call_resolver: the resolver's answer is not bound to a single local")
        call = [n for n in g.nodes if node_has_call(n, "self._resolve_conflict($$$)")]
        rets = [n for n in g.nodes if n.kind == "stmt" and isinstance(n.ast, ast.Return) and isinstance(n.ast.value, ast.Name) and n.ast.value.id == ret]
        if not call or not rets:
            raise AnalysisError("__safe_call_resolver: resolver call / `return <answer>` not found")
        # the last shape check: its 'passed' edge is the only way an unchanged answer may leave the validation
        def inspects(n):
            # a test that hands the answer (or its first element) to a call: isinstance(ret, tuple), len(ret) != 2, is_file_like(ret[0])
            return n.kind == "test" and any(isinstance(c, ast.Call) and any(isinstance(x, ast.Name) and x.id == ret for a in c.args for x in ast.walk(a)) for c in ast.walk(n.ast))
        checks = [n for n in g.nodes if inspects(n)]
        default = [n for n in g.nodes if cfg_root(n) is not None and isinstance(cfg_root(n), ast.Assign) and isinstance(cfg_root(n).targets[0], ast.Name)
                   and cfg_root(n).targets[0].id == ret and (isinstance(cfg_root(n).value, ast.Tuple) or (isinstance(cfg_root(n).value, ast.IfExp)
                                                                                                           and isinstance(cfg_root(n).value.body, ast.Tuple)))]
        n_checks = sum(sum(1 for c in ast.walk(n.ast) if isinstance(c, ast.Call) and any(isinstance(x, ast.Name) and x.id == ret for a in c.args for x in ast.walk(a))) for n in checks)
        if n_checks < 3 or not default:
            raise AnalysisError("__safe_call_resolver: shape checks (%d) / default assignment (%d) not found" % (n_checks, len(default)))
        # an answer that is thrown away (`ret = None`) is replaced by the default before it is returned
        drops = [n for n in g.nodes if cfg_root(n) is not None and isinstance(cfg_root(n), ast.Assign) and isinstance(cfg_root(n).targets[0], ast.Name)
                 and cfg_root(n).targets[0].id == ret and isinstance(cfg_root(n).value, ast.Constant) and cfg_root(n).value.value is None]
        for dn in drops:
            restore = [n for n in g.nodes if n is not dn and cfg_root(n) is not None and isinstance(cfg_root(n), ast.Assign) and isinstance(cfg_root(n).targets[0], ast.Name)
                       and cfg_root(n).targets[0].id == ret]       # any later store to the answer ends this None
            p0 = find_path(g, [dn.id], lambda n: n in rets, avoid=lambda n: n in default or n in restore, follow=NORMAL)      # path-sensitive: `ret is None` holds after the store
            rep.check("C05.V14", "__safe_call_resolver|dropped-answer-gets-default@%d" % (drops.index(dn) + 1), ctx.line(sc, cfg_root(dn)), p0 is None,
                      "a dropped answer reaches the remote-wins default before the return",
                      "`%s = None` can reach `return %s` without passing the remote-wins default: a malformed answer makes __safe_call_resolver return None and the caller "
                      "unpacks it" % (ret, ret), witness=describe_path(p0) if p0 else None)
        pth = find_path(g, [c.id for c in call], lambda n: n in rets, avoid=lambda n: n in checks or n in default, follow=NORMAL)
        rep.check("C05.V14", "__safe_call_resolver|checked-answer", ctx.line(sc, rets[0].ast), pth is None, "every returned answer passed the shape checks or is the default",
                  "an answer of the resolver can be returned unchecked: a falsy non-None value ((), 0, False, '') skips the shape checks and is not replaced by the default - "
                  "resolve_conflict cannot unpack it, the step fails, is punted and retried for ever (the conflict is never resolved)", witness=describe_path(pth) if pth else None)

    def v12(self):
        rep, ctx = self.rep, self.ctx
        rep.rule("C05.V12", "asking a ResolveFile for its length does not move the read position: after the seek to the end the saved position is restored on every path "
                 "(the resolver / the upload that reads the handle afterwards still gets the whole content)", expect_min=1)
        R = ctx.prog.cls("ResolveFile")
        n = 0
        for f in R.methods.values():
            g = ctx.cfg(f)
            ends = [x for x in g.nodes if node_has_call(x, "$F.seek(0, os.SEEK_END)") or node_has_call(x, "$F.seek(0, 2)")]
            if not ends:
                continue
            n += 1
            saved = [a.targets[0].id for a in ctx.own_nodes(f) if isinstance(a, ast.Assign) and isinstance(a.targets[0], ast.Name) and pat.match("$F.tell()", a.value) is not None]
            back = lambda x: any(node_has_call(x, "$F.seek(%s)" % s_) for s_ in saved)   # noqa: E731
            pth = g.reach([x.id for x in ends], lambda x: x is g.exit, avoid=back, follow=NORMAL)
            # the position must have been saved BEFORE the seek to the end
            pre = g.reach([g.entry.id], lambda x: x in ends, avoid=lambda x: cfg_root(x) is not None and isinstance(cfg_root(x), ast.Assign) and pat.match("$F.tell()", cfg_root(x).value) is not None, follow=NORMAL)
            rep.check("C05.V12", "%s|position-restored" % short(f.qname), f, bool(saved) and pth is None and pre is None, "tell() saved before, seek(saved) after",
                      "%s leaves the handle at the end of the file: whoever reads it next (the resolver, the upload of the winner) sees no bytes" % short(f.qname),
                      witness=describe_path(pth or pre) if (pth or pre) else None)
        if n == 0:
            raise AnalysisError("ResolveFile: no length computation by seek-to-end found")


def run(ctx: Ctx, rep: Report, tier: str):
    c = C05(ctx, rep)
    section(rep, c.run)
    section(rep, c.v10)
    section(rep, c.v11)
    section(rep, c.v12)
    section(rep, c.v14)
    from rules.common import hash_conflict_definition
    rep.rule("C05.V7", "the resolver is consulted when - and only when - both sides carry different unsynchronised content: hash_conflict() = both sides have "
             "hash and path and both hashes differ from their last-synced value", expect_min=1)
    section(rep, lambda: hash_conflict_definition(ctx, rep, "C05.V7"))
    from rules.common import alias as _alias
    from rules.C07 import C07 as _C07
    _alias(rep, ["C07.R4"], "C05.V13", "a file that is already in the way of a create is adopted silently only when its content is identical (same provider's hash of the bytes "
           "being uploaded, C07.R4); different content is left to the conflict path, so the resolver is consulted", 3, lambda: _C07(ctx, rep).r4())
    from rules.common import split_contract
    rep.rule("C05.V15", "conflicts are split the same way every time: SyncState.split moves the LOCAL half to a new entry and keeps the REMOTE half on the original "
             "(so 'remote wins, local gets out of the way' means something), clears the moved half, marks both changed, resets both last-synced paths", 7)
    section(rep, lambda: split_contract(ctx, rep, "C05.V15"))
    _alias(rep, ["C07.R6"], "C05.V16", "the handle a resolver reads is a complete download (C07.R6 for ResolveFile.download): a failed download leaves nothing under the final "
           "temp name that a later attempt would present as the side's content", 2, lambda: _C07(ctx, rep).r6())
    from rules.common import resolution_bookkeeping
    rep.rule("C05.V17", "the resolver's verdict is booked: keep -> loser entry CONFLICT with its winner-side half cleared, winner marked unsynced; not keep -> winner half grafted "
             "onto the loser's entry, the emptied entry discarded, all four sync markers set", 10)
    section(rep, lambda: resolution_bookkeeping(ctx, rep, "C05.V17"))
    from rules.common import rename_reuse_guard
    rep.rule("C05.V18", "the provider's own rename event of a .conflicted copy never takes over the winner's entry: in SyncState.update the rename-from entry is reused only when "
             "there is no entry for the new id, or that entry is not CONFLICTED and (old synced or new unsynced)", 1)
    section(rep, lambda: rename_reuse_guard(ctx, rep, "C05.V18"))
    from rules.common import refresh_covers_both_sides
    rep.rule("C05.V19", "a conflict is seen even when only one side's event arrived: the pre-sync refresh re-reads the quiet side too, so hash_conflict() can fire (C14.W1)", 1)
    section(rep, lambda: refresh_covers_both_sides(ctx, rep, "C05.V19"))
    from rules.common import derived_local_is_recomputed
    from rules.decisions import DECISION_FUNCTIONS as _DF
    rep.rule("C05.V20", "the loser's new name is tried afresh on every retry: in every loop of the engine a local derived from a local the loop reassigns is recomputed inside the "
             "loop (conflict_rename: the path is built from the name of THIS round)", 100)
    section(rep, lambda: derived_local_is_recomputed(ctx, rep, "C05.V20", _DF))
    from rules.decisions import decision_table, table_sites
    rep.rule("C05.DT", "decision table (rules/decisions.json) of conflict resolution: resolve_conflict, the merge upload, the resolver call and its validation, hash-conflict handling, conflict renaming, ResolveFile: for every function and every action shape (an impure call with the parameters it passes, a store to an "
             "attribute or item, a delete, a returned constant, a yield, a raise) the set of states - over the function's guard atoms - in which the action is taken "
             "equals the recorded one; compared as canonical decision diagrams, so any equivalent respelling of the guards is the same table", table_sites("C05"))
    section(rep, lambda: decision_table(ctx, rep, "C05.DT", "C05"))
