"""C07 - crash consistency: dying at any storage or provider write loses nothing.

Decided: the ordering of durable writes - provider side effects come before the commit that records them and every
normal path of a step commits (R1); who may write storage (R2); the cursor is persisted after the events it covers
(R3, shared with C06.R1); a peer that already exists is re-discovered by equal hash of the SAME provider instead of
conflicting (R4); a row that fails to load is dropped, not fatal (R5); a download is published under its final name
only after it completed (R6).   Not decided: convergence after restart at each crash point.
"""
from __future__ import annotations

import ast

from sa.model import AnalysisError, FuncInfo
from sa.ctx import Ctx, short, stmt_key
from sa.cfg import NORMAL, describe_path
from sa.report import Report, section
from sa.effects import Effects
from sa.sides import SideAnalysis, show
from sa.util import cfg_root, node_has_call, node_contains, has_fact
from sa import pat
from rules.C08 import C08

COMMIT_OWNERS = ("EventManager._process_event", "SyncManager._sync_one_entry", "SmartCloudSync._sync_one_entry",
                 "SyncManager._handle_dir_delete_not_empty")
STORAGE_WRITERS = ("SyncState._storage_update", "SyncState.storage_update_data", "SyncState.storage_delete_tag", "SyncState.forget",
                   "SyncState.__init__", "SyncEntry.store")


class C07:
    def __init__(self, ctx: Ctx, rep: Report):
        self.ctx, self.rep = ctx, rep
        self.eff = Effects(ctx)
        self.state = ctx.prog.cls("SyncState")
        self.commit = self.state.methods["storage_commit"]

    def _commit_sites(self, f):
        return [s for s in self.ctx.sites(f) if s.kind == "call" and self.commit in s.under]

    def r1(self):
        rep, ctx, p = self.rep, self.ctx, self.ctx.prog
        rep.rule("C07.R1", "storage_commit is called only from the step frames (_process_event, both _sync_one_entry, and the in-step "
                 "site of _handle_dir_delete_not_empty); in a sync step no commit precedes the calls that can reach provider mutations, "
                 "and nothing that can mutate a provider follows the in-step commit up to the step frame", expect_min=6)
        owners = {p.func(s).qname for s in COMMIT_OWNERS}
        n_sites = 0
        for f in ctx.prog.functions.values():
            if f is self.commit:
                continue
            for s in self._commit_sites(f):
                n_sites += 1
                ok = f.qname in owners
                if not ok:
                    callers = ctx.callers(f)
                    ok = bool(callers) and all(c.func.qname in owners for c in callers) and f.name.startswith("_")
                rep.check("C07.R1", "commit-site|%s" % short(f.qname), s.loc(), ok, "commit issued by a step frame",
                          "storage_commit() called from %s, outside the step frames: state is recorded at a point where the provider work it "
                          "describes may not have happened yet" % short(f.qname), func=f.qname, nontrivial=False)
        if n_sites < 5:
            raise AnalysisError("only %d storage_commit call sites found, expected >= 5" % n_sites)
        # step frames: no commit before pre_sync / sync
        for spec in ("SyncManager._sync_one_entry", "SmartCloudSync._sync_one_entry"):
            f = p.func(spec)
            g = ctx.cfg(f)
            cs = {id(s.node) for s in self._commit_sites(f)}
            commit_nodes = [n for n in g.nodes if cfg_root(n) is not None and any(id(x) in cs for x in ast.walk(cfg_root(n)))]
            work = [n for n in g.nodes if node_has_call(n, "$R.pre_sync($$$)") or node_has_call(n, "$R.sync($$$)")]
            if not work:
                raise AnalysisError("%s no longer calls pre_sync()/sync()" % spec)
            pth = g.reach([c.id for c in commit_nodes], lambda n: n in work)
            rep.check("C07.R1", "%s|commit-then-work" % short(f.qname), f, pth is None, "no path from a commit to pre_sync()/sync()",
                      "a storage_commit() precedes the provider work of the step: a crash in between leaves storage describing work the providers never saw",
                      witness=describe_path(pth) if pth else None)
        # the in-step commit: nothing that may mutate a provider after it, here and in the frames above
        f = p.func("SyncManager._handle_dir_delete_not_empty")
        steps = {p.func("SyncManager._sync_one_entry").qname, p.func("SmartCloudSync._sync_one_entry").qname}
        self._nothing_after(f, [s.node for s in self._commit_sites(f)], steps, depth=0, trail=short(f.qname))

    def _nothing_after(self, f: FuncInfo, start_nodes, stop_frames, depth: int, trail: str):
        rep, ctx = self.rep, self.ctx
        g = ctx.cfg(f)
        muts = self.eff.mutating_call_nodes(f)
        mut_ids = {id(m) for m in muts}

        def is_mut(n):
            r = cfg_root(n)
            return r is not None and any(id(x) in mut_ids for x in ast.walk(r))
        srcs = []
        for sn in start_nodes:
            srcs += [n.id for n in g.stmt_nodes_containing(sn)]
        pth = g.reach(srcs, is_mut)
        rep.check("C07.R1", "after-in-step-commit|%s" % trail, f, pth is None, "no provider mutation reachable after the in-step commit",
                  "after the commit inside the step (%s) a provider mutation is still reachable: a crash there leaves storage ahead of the providers" % trail,
                  witness=describe_path(pth) if pth else None)
        if f.qname in stop_frames or depth >= 6:
            return
        for s in ctx.callers(f):
            if s.kind != "call" or f not in s.under:
                continue
            self._nothing_after(s.func, [s.node], stop_frames, depth + 1, trail + " <- " + short(s.func.qname))

    def r2(self):
        rep, ctx, p = self.rep, self.ctx, self.ctx.prog
        rep.rule("C07.R2", "Storage.create/update/delete are called only by _storage_update, storage_update_data, storage_delete_tag, "
                 "forget, the load loop and SyncEntry.store; _storage_update is reached only from storage_commit", expect_min=7)
        allowed = {p.func(s).qname for s in STORAGE_WRITERS}
        n = 0
        for f in ctx.prog.functions.values():
            if f.cls is not None and f.cls.qname in self.eff.storage_q:
                continue
            for c in self.eff.storage_writes(f):
                n += 1
                rep.check("C07.R2", stmt_key(f, c), ctx.line(f, c), f.qname in allowed, "allowed storage writer",
                          "%s writes storage directly: entry rows must only be written by storage_commit" % short(f.qname), func=f.qname, nontrivial=False)
        if n < 7:
            raise AnalysisError("only %d storage write sites found, expected >= 7" % n)
        st_ = p.func("SyncEntry.store")
        cl = [s for s in ctx.callers(st_) if s.kind == "call"]
        rep.check("C07.R2", "SyncEntry.store|callers", st_, not cl, "no caller (legacy helper)", "SyncEntry.store() writes an entry row outside storage_commit, called from %s" % [s.loc() for s in cl], nontrivial=False)
        su = p.func("SyncState._storage_update")
        callers = {s.func.qname for s in ctx.callers(su)}
        rep.check("C07.R2", "_storage_update|callers", su, callers == {self.commit.qname}, "called only from storage_commit",
                  "_storage_update is also called from %s" % sorted(short(c) for c in callers - {self.commit.qname}))

    def r4(self):
        rep, ctx, p = self.rep, self.ctx, self.ctx.prog
        rep.rule("C07.R4", "an already-created peer is adopted, not conflicted: the CloudFileExistsError handler around provider.create "
                 "in _create_synced looks the path up, hashes the temp file with the SAME provider and re-raises only when the info is "
                 "missing or the hashes differ; every hash comparison in the engine compares hashes of one side", expect_min=4)
        f = p.func("SyncManager._create_synced")
        tries = [t for t in ctx.own_nodes(f) if isinstance(t, ast.Try) and any(
            isinstance(x, ast.Call) and isinstance(x.func, ast.Attribute) and x.func.attr == "create" for b in t.body for x in ast.walk(b))]
        if not tries:
            raise AnalysisError("_create_synced: try around provider.create not found")
        hs = [h for t in tries for h in t.handlers if h.type is not None and "CloudFileExistsError" in ast.unparse(h.type)]
        if not hs:
            rep.violation("C07.R4", "_create_synced|handler", f, "no CloudFileExistsError handler around provider.create: after a crash between "
                          "'peer created' and 'committed' the retry conflicts with its own earlier upload")
        for h in hs:
            calls = [x for b in h.body for x in ast.walk(b) if isinstance(x, ast.Call) and isinstance(x.func, ast.Attribute)]
            info = [c for c in calls if c.func.attr == "info_path"]
            hd = [c for c in calls if c.func.attr == "hash_data"]
            raises = [x for b in h.body for x in ast.walk(b) if isinstance(x, ast.Raise)]
            g = ctx.cfg(f)
            hn = [n for n in g.nodes if n.kind == "except" and n.ast is h]
            body_ids = {id(x) for b in h.body for x in ast.walk(b)}
            escapes = g.reach([n.id for n in hn], lambda m: cfg_root(m) is not None and id(cfg_root(m)) not in body_ids and m.kind not in ("join", "except"), follow=NORMAL)
            # re-raise when there is no info, or when the hashes DIFFER (the equality literal holds with polarity False) - never when they are equal
            iname = None
            for x in ast.walk(ast.Module(body=list(h.body), type_ignores=[])):
                if isinstance(x, ast.Assign) and isinstance(x.targets[0], ast.Name) and any(x.value is c for c in info):
                    iname = x.targets[0].id
            guarded = bool(raises) and all(
                any((iname is not None and txt == iname and pol is False) or (pol is False and "==" in txt and "hash" in txt) for (txt, pol) in ctx.facts_at(f, r))
                and not any(pol is True and "==" in txt and "hash" in txt for (txt, pol) in ctx.facts_at(f, r)) for r in raises)
            kinds = set()
            for r in raises:
                for (txt, pol) in ctx.facts_at(f, r):
                    if iname is not None and txt == iname and pol is False:
                        kinds.add("no-info")
                    if pol is False and "==" in txt and "hash" in txt:
                        kinds.add("hash-differs")
            guarded = guarded and kinds == {"no-info", "hash-differs"}
            same_prov = bool(info) and bool(hd) and all(ast.unparse(c.func.value) == ast.unparse(info[0].func.value) for c in hd)
            rep.check("C07.R4", "_create_synced|handler", ctx.line(f, h), bool(info) and bool(hd) and guarded and escapes is not None and same_prov,
                      "info_path + hash_data by the same provider; re-raise only on missing info / different hash; adoption path exists",
                      "the exists-handler of _create_synced no longer adopts an identical existing peer (info_path: %s, hash_data: %s, same provider: %s, "
                      "guarded re-raise: %s, adoption path: %s)" % (bool(info), bool(hd), same_prov, guarded, escapes is not None))
        # hash comparisons are within one side
        sa_ = SideAnalysis(ctx)
        n = 0
        for fn in ctx.prog.functions.values():
            if not fn.module.name.startswith("cloudsync.sync") and fn.module.name not in ("cloudsync.cs", "cloudsync.smartsync", "cloudsync.event"):
                continue
            for o in sa_.obligations(fn):
                if o.kind == "compare" and o.decided and ("hash" in o.what):
                    n += 1
                    rep.check("C07.R4", "hash-compare|" + stmt_key(fn, o.node), ctx.line(fn, o.node), not o.violated, "%s: both %s" % (o.what, show(o.actual)),
                              "%s: a hash of side %s is compared with a hash of side %s (different providers hash differently: an identical peer "
                              "is never recognised)" % (o.what, show(o.required), show(o.actual)), func=fn.qname)
        if n < 3:
            raise AnalysisError("only %d decided hash comparisons found, expected >= 3" % n)

    def r5(self):
        rep, ctx = self.rep, self.ctx
        rep.rule("C07.R5", "a stored row that fails to load is deleted and skipped, not fatal: the per-row construction in "
                 "SyncState.__init__ is inside try/except Exception whose handler deletes the row and does not re-raise", expect_min=1)
        f = self.state.methods["__init__"]
        cons = [n for n in ctx.own_nodes(f) if isinstance(n, ast.Call) and isinstance(n.func, ast.Name) and n.func.id == "SyncEntry"]
        if not cons:
            raise AnalysisError("SyncState.__init__ no longer constructs SyncEntry from stored rows")
        for c in cons:
            tries = [t for t in ctx.own_nodes(f) if isinstance(t, ast.Try) and any(x is c for b in t.body for x in ast.walk(b))]
            good = False
            for t in tries:
                for h in t.handlers:
                    names = [ast.unparse(x).split(".")[-1] for x in (h.type.elts if isinstance(h.type, ast.Tuple) else [h.type])] if h.type is not None else ["BaseException"]
                    if ("Exception" in names or "BaseException" in names) and not any(isinstance(x, ast.Raise) for b in h.body for x in ast.walk(b)):
                        dels = [x for b in h.body for x in ast.walk(b) if isinstance(x, ast.Call) and pat.match("self._storage.delete($$$)", x) is not None]
                        good = bool(dels)
            rep.check("C07.R5", "load-loop", ctx.line(f, c), good, "bad rows are deleted and skipped",
                      "a row that fails to deserialize aborts start-up (or is kept): the load loop lost its catch-all / delete / no-reraise shape")

    def r6(self):
        rep, ctx, p = self.rep, self.ctx, self.ctx.prog
        rep.rule("C07.R6", "a download becomes visible under its final temp name only after the provider finished writing it: the bytes go "
                 "to a '.tmp' sibling and os.rename(tmp, final) is not reachable before provider.download returned", expect_min=2)
        for spec in ("SyncManager.download_changed", "ResolveFile.download"):
            f = p.func(spec)
            g = ctx.cfg(f)
            dl = [n for n in g.nodes if node_has_call(n, "$P.download($$$)")]
            rn = [n for n in g.nodes if node_has_call(n, "os.rename($A, $B)")]
            if not dl:
                raise AnalysisError("%s no longer calls provider.download" % spec)
            if not rn:
                rep.violation("C07.R6", short(f.qname), f, "the download is no longer published by os.rename(tmp, final)")
                continue
            pth = g.reach([g.entry.id], lambda n: n in rn, avoid=lambda n: n in dl)
            # the file handed to download() is opened under a name that contains '.tmp'
            opens = [x for n in ctx.own_nodes(f) if isinstance(n, ast.With) for it in n.items for x in [it.context_expr]
                     if isinstance(x, ast.Call) and isinstance(x.func, ast.Name) and x.func.id == "open" and any(node_has_call_in(b, "download") for b in n.body)]
            tmp_ok = bool(opens) and all(self._is_tmp_name(f, o.args[0]) for o in opens)
            # a failed download must not leave the final name behind: rename is the only producer of the final name
            rep.check("C07.R6", short(f.qname), f, pth is None and tmp_ok, "write to *.tmp, rename after download",
                      "a partially downloaded file can appear under its final name (rename before download: %s, download target is a .tmp name: %s): "
                      "after a crash the restart uploads a truncated file as if complete" % (pth is not None, tmp_ok),
                      witness=describe_path(pth) if pth else None)

    def _is_tmp_name(self, f, e) -> bool:
        if any(isinstance(x, ast.Constant) and isinstance(x.value, str) and ".tmp" in x.value for x in ast.walk(e)):
            return True
        if isinstance(e, ast.Name):
            for n in self.ctx.own_nodes(f):
                if isinstance(n, ast.Assign) and any(isinstance(t, ast.Name) and t.id == e.id for t in n.targets):
                    if any(isinstance(x, ast.Constant) and isinstance(x.value, str) and ".tmp" in x.value for x in ast.walk(n.value)):
                        return True
        return False


def node_has_call_in(stmt, name) -> bool:
    return any(isinstance(x, ast.Call) and isinstance(x.func, ast.Attribute) and x.func.attr == name for x in ast.walk(stmt))


def run(ctx: Ctx, rep: Report, tier: str):
    c = C07(ctx, rep)
    section(rep, c.r1)
    rep.rule("C07.R1b", "every normal path of a sync step and of an intake step passes storage_commit() after the state-changing calls "
             "(same query as C08.R6)", expect_min=5)
    C08(ctx, rep).r6("C07.R1b")
    section(rep, c.r2)
    rep.rule("C07.R3", "the event cursor is persisted only after the loop over provider.events() is exhausted; the `stopped` early "
             "return skips the write (same query as C06.R1)", expect_min=1)
    from rules.C06 import C06
    C06(ctx, rep).r1("C07.R3")
    section(rep, c.r4)
    section(rep, c.r5)
    section(rep, c.r6)
    from rules.common import alias
    from rules.C06 import C06
    alias(rep, ["C06.R5"], "C07.R7", "what a restart reads back is complete: the loader re-indexes every stored entry on both sides and re-queues exactly the entries whose "
          "persisted `changed` flag is set (C06.R5) - work that was recorded before the crash is neither lost nor invented", 4, lambda: C06(ctx, rep).r5())
    _c06 = C06(ctx, rep)
    alias(rep, ["C06.R4"], "C07.R8", "a crash during the start-up walk repeats the walk: the walk marker is written only after the walk loop completed (C06.R4)", 2,
          lambda: _c06.r4())
    from rules.C10 import C10 as _C10
    alias(rep, ["C10.T7"], "C07.R9", "a download recorded before a crash is reused after the restart only for the content it came from: the temp-file name is a function of "
          "the side's current hash and path (C10.T7)", 2, lambda: _C10(ctx, rep).t7())
    alias(rep, ["C06.R2"], "C07.R10", "a crash right after a rejected cursor was replaced repeats the walk: the fresh cursor is never durable before the walk obligation is "
          "(C06.R2)", 2, lambda: _c06.r2())
    from rules.C06 import run as _c06run
    rep.rule("C07.R11", "a stored cursor survives a restart whatever its value: it is discarded only when absent (`is None`), never because it is falsy (C06.R3b)", 3)
    em7 = ctx.prog.cls("EventManager")
    for f7 in em7.methods.values():
        for n7 in ctx.own_nodes(f7):
            tests7 = []
            if isinstance(n7, (ast.If, ast.While, ast.IfExp)):
                tests7.append(n7.test)
            elif isinstance(n7, ast.BoolOp):
                tests7 += n7.values
            elif isinstance(n7, ast.UnaryOp) and isinstance(n7.op, ast.Not):
                tests7.append(n7.operand)
            for t7 in tests7:
                if pat.match("self.cursor", t7) is not None:
                    rep.violation("C07.R11", "%s|truthiness" % short(f7.qname), ctx.line(f7, n7), "`self.cursor` is tested for truthiness: a legitimate falsy cursor is thrown away after a restart")
            if isinstance(n7, ast.Compare) and len(n7.ops) == 1 and pat.match("self.cursor", n7.left) is not None:
                rep.check("C07.R11", "%s|%s" % (short(f7.qname), ast.unparse(n7)), ctx.line(f7, n7), isinstance(n7.ops[0], (ast.Is, ast.IsNot, ast.Eq, ast.NotEq)), "identity / equality test", "cursor compared by order")
    from rules.C08 import C08 as _C08c
    from rules.common import alias as _alias_c
    _alias_c(rep, ["C08.R5"], "C07.R12", "a failed storage write is retried by the next commit: the dirty set is emptied only after the loop over it completed (C08.R5)", 1, lambda: _C08c(ctx, rep).r5(), keep=lambda i: i.key.startswith("storage_commit|"))
    from rules.decisions import decision_table, table_sites
    rep.rule("C07.DT", "decision table (rules/decisions.json) of the functions whose writes a crash can separate: the step frame, the storage write-through, the first-step initialisation and the cursor save: for every function and every action shape the set of states - over the function's guard atoms, "
             "including the `with` blocks and `try` scopes the action stands in - in which the action is taken equals the recorded one, and actions keep their order", 1)
    section(rep, lambda: decision_table(ctx, rep, "C07.DT", "C07"))
