"""C13 - path algebra laws.

The value-level laws (idempotence of normalisation, split/join round trip, replace/match laws over all strings) quantify
over runtime strings and are NOT decided.  Decided are the structural slips the property itself names: the prefix-sibling
boundary and symmetric case folding in is_subpath, the relative part being cut from the ORIGINAL (un-folded) target (Z1, Z2,
Z5); paths_match being the kernel of one normalisation function, hence an equivalence that agrees with normalisation (Z3);
replace_path being built from is_subpath's relative part and raising otherwise (Z4); the default translate using the source
side's algebra for membership and the destination's for the join (Z6 = C12.Y2).
"""
from __future__ import annotations

import ast

from sa.model import AnalysisError
from sa.ctx import Ctx
from sa.cfg import NORMAL, describe_path
from sa.report import Report, section
from sa import pat
from sa.util import node_has_call, fact_in, fact_in
from rules.C12 import C12


class C13:
    def __init__(self, ctx: Ctx, rep: Report):
        self.ctx, self.rep = ctx, rep

    def z3(self):
        rep, ctx = self.rep, self.ctx
        rep.rule("C13.Z3", "paths_match(a, b) is `f(a) == f(b)` for one normalisation function f with identical extra arguments, plus the None arms "
                 "(both None -> True, exactly one None -> False): an equivalence relation that agrees with normalisation", expect_min=2)
        f = ctx.prog.func("Provider.paths_match")
        a, b = f.params()[1], f.params()[2]
        rets = [n for n in ctx.own_nodes(f) if isinstance(n, ast.Return) and n.value is not None]
        kern = [r for r in rets if isinstance(r.value, ast.Compare)]
        good = len(kern) == 1
        if good:
            c = kern[0].value
            m1 = pat.match("self.$F(%s, $$$)" % a, c.left)
            m2 = pat.match("self.$F(%s, $$$)" % b, c.comparators[0]) if len(c.comparators) == 1 else None
            good = isinstance(c.ops[0], ast.Eq) and isinstance(c.left, ast.Call) and isinstance(c.comparators[0], ast.Call) \
                and ast.unparse(c.left.func) == ast.unparse(c.comparators[0].func) \
                and [ast.unparse(x) for x in c.left.args[1:]] == [ast.unparse(x) for x in c.comparators[0].args[1:]] \
                and [(k.arg, ast.unparse(k.value)) for k in c.left.keywords] == [(k.arg, ast.unparse(k.value)) for k in c.comparators[0].keywords] \
                and ast.unparse(c.left.args[0]) == a and ast.unparse(c.comparators[0].args[0]) == b
        rep.check("C13.Z3", "paths_match|kernel", f, good, "normalize(a, extra) == normalize(b, extra)",
                  "paths_match is no longer the kernel of a single normalisation function (asymmetric arguments make it non-symmetric / non-transitive)")
        consts = [r for r in rets if isinstance(r.value, ast.Constant)]
        got = set()
        for r in consts:
            facts = ctx.facts_at(f, r)
            got.add((r.value.value, tuple(sorted(facts))))
        both = any(v is True and fact_in(fs, "%s is None" % a, True) and fact_in(fs, "%s is None" % b, True) for v, fs in got)
        one = any(v is False and any("is None" in t for t, p in fs) for v, fs in got)
        rep.check("C13.Z3", "paths_match|none-arms", f, both and one, "None/None -> True, one None -> False", "the None arms of paths_match changed (%s)" % sorted(got))

    def z4(self):
        rep, ctx = self.rep, self.ctx
        rep.rule("C13.Z4", "replace_path is built from is_subpath(from_dir, path): it returns normalised to_dir + relative part (nothing for the "
                 "folder itself) and raises when path is not inside from_dir", expect_min=2)
        f = ctx.prog.func("Provider.replace_path")
        path, frm, to = f.params()[1:4]
        rel = None
        for n in ctx.own_nodes(f):
            if isinstance(n, ast.Assign) and isinstance(n.value, ast.Call) and pat.match("self.is_subpath(%s, %s)" % (frm, path), n.value) is not None and isinstance(n.targets[0], ast.Name):
                rel = n.targets[0].id
        rets = [n for n in ctx.own_nodes(f) if isinstance(n, ast.Return) and n.value is not None]
        good = rel is not None and bool(rets) and all((rel, True) in ctx.facts_at(f, r) and any(isinstance(x, ast.Name) and x.id == rel for x in ast.walk(r.value))
                                                      and any(isinstance(x, ast.Name) and x.id == to for x in ast.walk(r.value)) for r in rets)
        rep.check("C13.Z4", "replace_path|relative", f, good, "result = to_dir + is_subpath(from_dir, path)", "replace_path is no longer built from is_subpath's relative part")
        g = ctx.cfg(f)
        rz = [n for n in g.nodes if n.kind == "stmt" and isinstance(n.ast, ast.Raise)]
        good = bool(rz) and rel is not None and all((rel, False) in ctx.facts(f).facts(n) for n in rz)
        rep.check("C13.Z4", "replace_path|raises", f, good, "raises when the path is not inside from_dir", "replace_path silently returns something for a path outside from_dir")

    def z5(self):
        rep, ctx = self.rep, self.ctx
        rep.rule("C13.Z5", "the relative part returned by is_subpath is cut from the original (un-folded) target, with the un-folded folder's length: "
                 "join(folder, relative) spells the target as given", expect_min=2)
        f = ctx.prog.func("Provider.is_subpath")
        folded = set()
        for n in ctx.own_nodes(f):
            if isinstance(n, ast.Assign) and isinstance(n.targets[0], ast.Name) and isinstance(n.value, ast.Call) and isinstance(n.value.func, ast.Attribute) and n.value.func.attr in ("lower", "casefold", "upper"):
                folded.add(n.targets[0].id)
        # names that merely alias a folded value on the case-sensitive arm are the same variables
        k = 0
        for r in ctx.own_nodes(f):
            if isinstance(r, ast.Return) and r.value is not None and not isinstance(r.value, ast.Constant) and not pat.match("self.sep", r.value):
                v = r.value.orelse if isinstance(r.value, ast.IfExp) else r.value
                if isinstance(v, ast.Constant) or pat.match("self.sep", v) is not None:
                    continue
                k += 1
                names = {x.id for x in ast.walk(v) if isinstance(x, ast.Name)}
                rep.check("C13.Z5", "is_subpath|return %s" % ast.unparse(v)[:40], ctx.line(f, r), not (names & folded), "built from un-folded operands %s" % sorted(names - {"self", "len"}),
                          "the relative part `%s` is cut from case-folded operand(s) %s: on a case-insensitive provider the relative part (and every path translated or "
                          "replaced through it) loses its spelling" % (ast.unparse(v), sorted(names & folded)))
        if k < 2:
            raise AnalysisError("is_subpath: only %d non-trivial relative-part returns found" % k)


def run(ctx: Ctx, rep: Report, tier: str):
    rep.rule("C13.Z7", "normalize_path: every result is derived from the one collapsed value (join of the re-split parts); the for_display form differs from the "
             "comparison form only in the case of the leaf, so both forms of one path name the same object", expect_min=2)
    np_ = ctx.prog.func("Provider.normalize_path")
    coll = [n.targets[0].id for n in ctx.own_nodes(np_) if isinstance(n, ast.Assign) and isinstance(n.targets[0], ast.Name) and pat.match("self.join(*$P)", n.value) is not None]
    if len(coll) != 1:
        raise AnalysisError("normalize_path: the collapsed value `self.join(*parts)` was not found")
    locs = set(np_.params()) | {n.targets[0].id for n in ctx.own_nodes(np_) if isinstance(n, ast.Assign) and isinstance(n.targets[0], ast.Name)}
    for r_ in [n for n in ctx.own_nodes(np_) if isinstance(n, ast.Return)]:
        used = {x.id for x in ast.walk(r_.value) if isinstance(x, ast.Name)} & locs - {np_.params()[0]} if r_.value is not None else set()
        rep.check("C13.Z7", "normalize_path|%s" % ast.unparse(r_)[:60], ctx.line(np_, r_), used == {coll[0]}, "built from %s only" % coll[0],
                  "a result of normalize_path is built from %s instead of the collapsed value `%s`: the display form and the comparison form of one path differ in more than case" % (sorted(used - {coll[0]}) or "nothing", coll[0]))
    from rules.common import subpath_lengths_are_normalised
    rep.rule("C13.Z8", "is_subpath positions its boundary test and cuts the relative part with lengths of separator-normalised values, never of a raw argument", 2)
    section(rep, lambda: subpath_lengths_are_normalised(ctx, rep, "C13.Z8"))
    rep.rule("C13.Z9", "join decides whether to prefix the separator from the joined value alone (first character, drive-letter colon at index 1): the decision never "
             "looks at an individual input component, so join(a, b, c) and join(join(a, b), c) agree and a drive-rooted folder stays a prefix of what is joined under it", 1)
    jf = ctx.prog.func("Provider.join")
    pre = [n for n in ctx.own_nodes(jf) if isinstance(n, ast.Assign) and isinstance(n.targets[0], ast.Name) and isinstance(n.value, ast.BinOp) and isinstance(n.value.op, ast.Add)
           and pat.match("%s.sep" % jf.params()[0], n.value.left) is not None and isinstance(n.value.right, ast.Name) and n.value.right.id == n.targets[0].id]
    if not pre:
        raise AnalysisError("Provider.join: the statement that prefixes the separator was not found")
    for st_ in pre:
        j = st_.targets[0].id
        facts = ctx.facts_at(jf, st_)
        others = set()
        for (txt, pol) in facts:
            try:
                e_ = ast.parse(txt, mode="eval").body
            except SyntaxError:
                continue
            if isinstance(e_, ast.Name):
                continue            # `if norm_paths:` - is there anything to join at all
            for x in ast.walk(e_):
                if isinstance(x, ast.Name) and x.id not in (j, jf.params()[0]):
                    others.add(x.id)
        rep.check("C13.Z9", "join|prefix-decision", ctx.line(jf, st_), not others, "guards mention only `%s`" % j,
                  "the leading separator is added depending on %s (an input component), not on the joined value: a first component such as `c:\\Users\\me` is no longer "
                  "recognised as drive-rooted, join() leaves its own folder (is_subpath(folder, join(folder, rel)) is false)" % sorted(others))
    rep.rule("C13.Z10", "normalize_path folds case only for a case-insensitive provider (every result that applies lower()/casefold() is reached with `self.case_sensitive` "
             "false), and works on the separator-normalised path: the value that is split into parts is normalize_path_separators(path)", 2)
    np2 = ctx.prog.func("Provider.normalize_path")
    low = [n for n in ctx.own_nodes(np2) if isinstance(n, ast.Return) and n.value is not None and any(
        isinstance(x, ast.Call) and isinstance(x.func, ast.Attribute) and x.func.attr in ("lower", "casefold", "upper") for x in ast.walk(n.value))]
    if not low:
        raise AnalysisError("normalize_path: no case-folding result found")
    for r_ in low:
        rep.check("C13.Z10", "normalize_path|fold-only-insensitive|%d" % low.index(r_), ctx.line(np2, r_), fact_in(ctx.facts_at(np2, r_), "self.case_sensitive", False),
                  "folded only when the provider is case-insensitive",
                  "`%s` folds case although the provider may be case-sensitive: two different paths of a case-sensitive provider compare equal (a case-only rename of a "
                  "folder is invisible)" % ast.unparse(r_)[:80])
    pth_p = np2.params()[1]
    defs_ = {}
    for n in ctx.own_nodes(np2):
        if isinstance(n, ast.Assign) and isinstance(n.targets[0], ast.Name):
            defs_.setdefault(n.targets[0].id, []).append(n)
    splits = [n for n in ctx.own_nodes(np2) if isinstance(n, ast.Call) and ast.unparse(n.func) in ("re.split",) and len(n.args) >= 2]
    ok_sep = bool(splits)
    if not splits:
        rep.violation("C13.Z10", "normalize_path|collapse", np2, "normalize_path no longer splits the path on runs of the separator and re-joins the parts: interior and leading "
                      "separator runs (`/a//b`, `//a`) survive normalisation, so paths_match(`/a//b`, `/a/b`) is false and replace_path produces `//b`")
    for sp in splits:
        a_ = sp.args[1]
        # the split operand is the parameter AFTER it was rebound to normalize_path_separators(param), or a local holding that value
        g_ = ctx.cfg(np2)
        norm_nodes = [n for n in g_.nodes if node_has_call(n, "self.normalize_path_separators(%s)" % pth_p) or node_has_call(n, "$C.normalize_path_separators(%s)" % pth_p)]
        use = g_.stmt_nodes_containing(sp)
        p_ = g_.reach([g_.entry.id], lambda n: n in use, avoid=lambda n: n in norm_nodes, follow=NORMAL)
        ok_sep = ok_sep and bool(norm_nodes) and p_ is None and isinstance(a_, ast.Name)
    rep.check("C13.Z10", "normalize_path|separators-first", np2, ok_sep, "parts are split from normalize_path_separators(path)",
              "normalize_path no longer normalises separators before it splits the path: runs of the alternate separator survive, normalisation is not idempotent and "
              "paths_match(`/docs\\\\a.txt`, `/docs/a.txt`) is false")
    rep.rule("C13.Z11", "one case-folding function: every helper of the path algebra (normalize_path, is_subpath, paths_match, replace_path) folds case with the same string "
             "method, so their notions of 'same name' agree for every character (ß, ς, ﬁ ...)", 1)
    folds = {}
    for nm in ("normalize_path", "is_subpath", "paths_match", "replace_path", "normalize_path_separators", "join"):
        fm = ctx.prog.cls("Provider").methods.get(nm)
        if fm is None:
            continue
        for x in ctx.own_nodes(fm):
            if isinstance(x, ast.Call) and isinstance(x.func, ast.Attribute) and x.func.attr in ("lower", "casefold", "upper") and not x.args:
                folds.setdefault(x.func.attr, []).append((fm, x))
    if not folds:
        raise AnalysisError("no case folding found in the path helpers")
    rep.check("C13.Z11", "Provider|one-fold", ctx.prog.func("Provider.normalize_path"), len(folds) == 1, "all helpers fold with .%s()" % sorted(folds)[0],
              "the path helpers fold case with different functions (%s): for names whose casefold differs from their lowercase two helpers disagree whether two paths are the "
              "same (paths_match true, is_subpath false; replace_path raises)" % {k: [ctx.line(f_, x_) for f_, x_ in v] for k, v in folds.items()})
    rep.rule("C13.Z1", "alias of C12.Y5: component boundary + symmetric case fold in is_subpath", expect_min=4)
    rep.rule("C13.Z6", "alias of C12.Y2: default translate uses the source side's provider for membership and the destination's for the join", expect_min=3)
    c12 = C12(ctx, rep)
    rep.rules["C12.Y5"] = rep.rules["C13.Z1"]
    rep.rules["C12.Y2"] = rep.rules["C13.Z6"]
    c12.y5()
    c12.y2()
    for i in rep.instances:
        if i.rule == "C12.Y5":
            i.rule = "C13.Z1"
        elif i.rule == "C12.Y2":
            i.rule = "C13.Z6"
    for k in ("C12.Y5", "C12.Y2"):
        rep.rules.pop(k, None)
        rep.expect.pop(k, None)
    c = C13(ctx, rep)
    section(rep, c.z3)
    section(rep, c.z4)
    section(rep, c.z5)
    rep.assume("the value-level laws of C13 (idempotence, split/join round trip, replace/match laws for all strings) are not decided by this check")
    from rules.decisions import decision_table, table_sites
    rep.rule("C13.DT", "decision table (rules/decisions.json) of the path algebra of the provider base class: for every function and every action shape (an impure call with the parameters it passes, a store to an "
             "attribute or item, a delete, a returned constant, a yield, a raise) the set of states - over the function's guard atoms - in which the action is taken "
             "equals the recorded one; compared as canonical decision diagrams, so any equivalent respelling of the guards is the same table", table_sites("C13"))
    section(rep, lambda: decision_table(ctx, rep, "C13.DT", "C13"))
