"""C12 - root confinement: nothing outside the sync roots is synced or modified.

Decided: every path / id handed to a provider, a look-up, translate or an entry half belongs to that side (Y1, side-typing);
the default translate is is_subpath(source root) -> join(destination root) with the source side's provider and a None
fall-through (Y2); a translate result never reaches a mutating provider call untested (Y3); a path that does not translate
is discarded, or - only if it was synced before and left the root - its peer is deleted (Y4); is_subpath cuts on a component
boundary and folds case symmetrically (Y5); a root once set cannot change (Y6); revival of an irrelevant entry requires that
its current path translates and resets the peer side (Y7).
Not decided: provider-side event filtering; the race between a move-out and a concurrent peer edit.
"""
from __future__ import annotations

import ast

from sa.model import AnalysisError, FuncInfo
from sa.ctx import Ctx, short, stmt_key, ENGINE_MODULES
from sa.cfg import NORMAL, describe_path
from sa.report import Report, section
from sa.effects import Effects
from sa.sides import SideAnalysis, show, MUTATING_API
from sa.util import extra_facts, cfg_root, node_has_call, node_contains, has_fact, node_stores_attr, fact_binds, fact_in, local_assigned_from
from sa import pat


class C12:
    def __init__(self, ctx: Ctx, rep: Report):
        self.ctx, self.rep = ctx, rep
        self.sa = SideAnalysis(ctx)
        self.eff = Effects(ctx)

    def engine_funcs(self):
        return [f for f in self.ctx.prog.functions.values() if f.module.name in ENGINE_MODULES]

    def y1(self):
        rep, ctx = self.rep, self.ctx
        rep.rule("C12.Y1", "side-typing: every path / id / hash given to a provider API call, to translate, to a state look-up, to "
                 "update_entry, stored into an entry half or moved between entries belongs to that side; `synced = other(changed)` "
                 "holds at every call site that passes both", expect_min=80)
        counts = {}
        for f in self.engine_funcs():
            for o in self.sa.obligations(f):
                if o.kind in ("compare",):
                    continue
                if o.kind == "path-helper":
                    if o.violated:
                        rep.note("C12.Y1", "path-helper|" + stmt_key(f, o.node), ctx.line(f, o.node), "%s: provider of side %s used for a path of side %s (pure helper, no effect on the tree)" % (o.what, show(o.required), show(o.actual)))
                    continue
                if not o.decided:
                    continue
                counts[o.kind] = counts.get(o.kind, 0) + 1
                rep.check("C12.Y1", "%s|%s|%s" % (o.kind, stmt_key(f, o.node, 70), o.what[:40]), ctx.line(f, o.node), not o.violated,
                          "%s : side %s" % (o.what, show(o.actual)),
                          "%s belongs to side %s but side %s is required here: a path of one root is used on the other provider / entry half"
                          % (o.what, show(o.actual), show(o.required)), func=f.qname)
        for o in self.sa.precondition_sites():
            if o.func.module.name not in ENGINE_MODULES:
                continue
            if o.decided:
                counts["precondition"] = counts.get("precondition", 0) + 1
                rep.check("C12.Y1", "precondition|%s" % stmt_key(o.func, o.node, 80), ctx.line(o.func, o.node), not o.violated, o.what,
                          "%s: the two side arguments are not complementary (%s vs %s)" % (o.what, show(neg_show(o.required)), show(o.actual)), func=o.func.qname)
            else:
                rep.note("C12.Y1", "precondition|%s" % stmt_key(o.func, o.node, 80), ctx.line(o.func, o.node), "could not relate the two side arguments: " + o.what)
        rep.extra["C12_side_obligations"] = counts
        mut = sum(1 for f in self.engine_funcs() for o in self.sa.obligations(f) if o.kind == "provider-api" and o.mutating and o.decided)
        if mut < 8:
            raise AnalysisError("only %d side-decided mutating provider calls, expected >= 8" % mut)

    def y2(self):
        rep, ctx = self.rep, self.ctx
        rep.rule("C12.Y2", "CloudSync.translate: the only non-None result is providers[side].join(roots[side], relative) with relative = "
                 "providers[other].is_subpath(roots[other], path) computed by the SOURCE side's provider, and a falsy relative returns None", expect_min=3)
        f = ctx.prog.func("CloudSync.translate")
        side = f.params()[1]
        path = f.params()[2]
        sub = [n for n in ctx.own_nodes(f) if isinstance(n, ast.Call) and isinstance(n.func, ast.Attribute) and n.func.attr == "is_subpath"]
        if len(sub) != 1:
            raise AnalysisError("CloudSync.translate: expected one is_subpath call, found %d" % len(sub))
        c = sub[0]
        ps = self.sa.provider_side(f, c.func.value)
        rs = self.sa.value_side(f, c.args[0]) if c.args else None
        want = (side, True)
        good = ps is not None and rs is not None and not_diff(ps, want) and not_diff(rs, want) and same(ps, want) and same(rs, want) \
            and len(c.args) >= 2 and isinstance(c.args[1], ast.Name) and c.args[1].id == path
        rep.check("C12.Y2", "translate|is_subpath", ctx.line(f, c), good, "source side's provider and root",
                  "is_subpath is evaluated with provider of side %s against the root of side %s (both must be the source side other(%s)): "
                  "the destination's path rules (case, separators) decide what lies inside the source root" % (show(ps), show(rs), side))
        rets = [n for n in ctx.own_nodes(f) if isinstance(n, ast.Return) and n.value is not None and not (isinstance(n.value, ast.Constant) and n.value.value is None)]
        rel = None
        for n in ctx.own_nodes(f):
            if isinstance(n, ast.Assign) and n.value is c and isinstance(n.targets[0], ast.Name):
                rel = n.targets[0].id
        for r in rets:
            m = pat.match("$P.join($R, $X)", r.value)
            good = m is not None and same(self.sa.provider_side(f, m["P"]), (side, False)) and same(self.sa.value_side(f, m["R"]), (side, False)) \
                and isinstance(m["X"], ast.Name) and m["X"].id == rel
            rep.check("C12.Y2", "translate|join", ctx.line(f, r), good, "join(destination root, relative)",
                      "translate returns `%s`, not providers[%s].join(roots[%s], <relative part>)" % (ast.unparse(r.value), side, side))
            facts = ctx.facts_at(f, r)
            rep.check("C12.Y2", "translate|none-guard", ctx.line(f, r), rel is not None and (rel, True) in facts, "only reached with a truthy relative part",
                      "the join is reachable with a falsy relative part: a path outside the root translates to the root itself")

    def y3(self):
        rep, ctx = self.rep, self.ctx
        rep.rule("C12.Y3", "a translate result that reaches the path argument of a mutating provider call (create, mkdir(s), rename) "
                 "was tested for None / falsy on the way (followed through `translated_path` parameters up the call chain)", expect_min=3)
        n = 0
        for f in self.engine_funcs():
            for c in self.eff.provider_mutations(f):
                name = c.func.attr
                idx = {"create": 0, "mkdir": 0, "mkdirs": 0, "rename": 1}.get(name)
                if idx is None or idx >= len(c.args):
                    continue
                a = c.args[idx]
                if not isinstance(a, ast.Name):
                    continue
                res = self._translate_guarded(f, c, a.id, 0, [])
                if res is None:
                    continue
                n += 1
                ok, why = res
                rep.check("C12.Y3", stmt_key(f, c), ctx.line(f, c), ok, why, "an untested translate result reaches `%s`: %s" % (ast.unparse(c)[:70], why), func=f.qname)
        if n < 3:
            raise AnalysisError("only %d translate->mutating-call flows found, expected >= 3" % n)

    def _translate_guarded(self, f: FuncInfo, at: ast.AST, name: str, depth: int, trail):
        """None: the value does not come from translate.  (True/False, explanation) otherwise."""
        ctx = self.ctx
        facts = ctx.facts_at(f, at)
        tested = (name, True) in facts or fact_in(facts, "%s is None" % name, False)
        d = self.sa.single_def(f, name)
        if d is not None and isinstance(d, ast.Call) and isinstance(d.func, ast.Attribute) and d.func.attr == "translate":
            return (tested, "`%s` = %s, %s at %s" % (name, ast.unparse(d), "tested" if tested else "NOT tested", ctx.line(f, at)))
        if name in f.all_param_names() and depth < 5:
            if tested:
                return (True, "parameter `%s` tested in %s" % (name, short(f.qname)))
            outs = []
            for s in ctx.callers(f):
                if s.kind != "call" or f not in s.under:
                    continue
                pos = f.params()
                skip = 1 if f.cls is not None and f.kind == "method" else 0
                actual = None
                for i, arg in enumerate(s.node.args):
                    if i + skip < len(pos) and pos[i + skip] == name:
                        actual = arg
                for kw in s.node.keywords:
                    if kw.arg == name:
                        actual = kw.value
                if isinstance(actual, ast.Name):
                    r = self._translate_guarded(s.func, s.node, actual.id, depth + 1, trail)
                    if r is not None:
                        outs.append(r)
            if not outs:
                return None
            bad = [w for ok, w in outs if not ok]
            return (not bad, "; ".join(bad) if bad else "; ".join(w for ok, w in outs[:2]))
        return None

    def y4(self):
        rep, ctx = self.rep, self.ctx
        rep.rule("C12.Y4", "embrace_change, path does not translate: the peer is deleted only when the object was synced before AND has left "
                 "the provider's root; otherwise the entry is ignored as IRRELEVANT and the step finishes before anything that can create, "
                 "upload, rename or delete", expect_min=3)
        f = ctx.prog.func("SyncManager.embrace_change")
        g = ctx.cfg(f)
        sync, changed, synced = f.params()[1:4]
        tpn = local_assigned_from(ctx, f, "self.translate($$$)")
        if tpn is None:
            raise AnalysisError("embrace_change: the result of translate() is not bound to a single local")
        tests = [n for n in g.nodes if n.kind == "test" and pat.match("not %s" % tpn, n.ast) is not None]
        if len(tests) != 1:
            raise AnalysisError("embrace_change: test `not <translated path>` not found")
        t = tests[0]
        starts = [b for (b, l) in g.succ[t.id] if l == "T"]
        dels = [c for c in ctx.calls(f, "delete_synced") if any(pat.match("IgnoreReason.IRRELEVANT", a) is not None for a in c.args)]
        if not dels:
            rep.violation("C12.Y4", "embrace_change|move-out-delete", f, "moving an object out of the root no longer deletes its peer (delete_synced(..., IRRELEVANT) is gone)")
        for c in dels:
            facts = ctx.facts_at(f, c)
            g1 = has_fact(facts, "%s[%s].sync_path" % (sync, changed), True)
            g2 = has_fact(facts, "self.providers[%s].is_subpath_of_root(%s[%s].path)" % (changed, sync, changed), False)
            g0 = fact_in(facts, tpn, False)
            rep.check("C12.Y4", "embrace_change|move-out-delete", ctx.line(f, c), g0 and g1 and g2,
                      "peer delete only for: not translated, synced before, outside the provider's root",
                      "the peer of a path that merely does not translate is deleted (needs: no translation %s, was synced %s, left the root %s): objects "
                      "inside the root that the application declines lose their counterpart" % (g0, g1, g2))
        ign = [n for n in g.nodes if node_has_call(n, "%s.ignore(IgnoreReason.IRRELEVANT)" % sync)]
        disc = [n for n in g.nodes if n.kind == "test" and pat.match("%s.is_discarded" % sync, n.ast) is not None]
        if not disc:
            raise AnalysisError("embrace_change: is_discarded test not found")
        if not ign:
            rep.violation("C12.Y4", "embrace_change|ignored", ctx.line(f, t.ast), "a path that does not translate is no longer ignored as IRRELEVANT: it is embraced (created / uploaded / renamed) on the other side")
            return
        did = {n.id for n in disc}
        # every path of the not-translated arm either returns or passes ignore(IRRELEVANT) before the is_discarded test
        p1 = g.reach(starts, lambda n: n in disc, avoid=lambda n: n in ign, follow=NORMAL, include_src=True)
        rep.check("C12.Y4", "embrace_change|ignored", ctx.line(f, t.ast), p1 is None, "every non-returning path ignores the entry as IRRELEVANT",
                  "a path that does not translate can continue without being ignored", witness=describe_path(p1) if p1 else None)
        muts = {id(m) for m in self.eff.mutating_call_nodes(f)}
        del_ids = {id(c) for c in dels}

        def is_mut(n):
            r = cfg_root(n)
            return r is not None and any(id(x) in muts and id(x) not in del_ids for x in ast.walk(r))
        p2 = g.reach(starts, is_mut, follow=lambda a, b, l: l != "exc" and not (a in did and l == "F"), include_src=True)
        rep.check("C12.Y4", "embrace_change|no-write", ctx.line(f, t.ast), p2 is None, "nothing provider-mutating before the is_discarded return",
                  "a path that does not translate can still reach a provider mutation", witness=describe_path(p2) if p2 else None)
        # the pruning of the false edge above rests on: ignore() stores its reason; is_discarded covers IRRELEVANT
        E = ctx.prog.cls("SyncEntry")
        ig = E.methods["ignore"]
        gi = ctx.cfg(ig)
        st = [n for n in gi.nodes if node_stores_attr(n, "ignored", ig.params()[1])]
        pp = gi.reach([gi.entry.id], lambda n: n is gi.exit, avoid=lambda n: n in st, follow=NORMAL)
        isd = E.getters["is_discarded"]
        txt = " ".join(ast.unparse(n) for n in ctx.own_nodes(isd) if isinstance(n, ast.Return))
        rep.check("C12.Y4", "ignore/is_discarded", ig, bool(st) and pp is None and "IgnoreReason.IRRELEVANT" in txt and "self.ignored in" in txt,
                  "ignore(reason) stores reason on every path; is_discarded includes IRRELEVANT",
                  "ignore() no longer always stores its reason, or is_discarded no longer covers IRRELEVANT")

    def y5(self):
        rep, ctx = self.rep, self.ctx
        rep.rule("C12.Y5", "Provider.is_subpath returns a relative part only when the paths are equal, the folder is the root separator, "
                 "or the character after the folder prefix is the separator (component boundary) and the prefix matches; case is folded on "
                 "both operands or on neither", expect_min=4)
        f = ctx.prog.func("Provider.is_subpath")
        folder, target = f.params()[1], f.params()[2]
        rets = [n for n in ctx.own_nodes(f) if isinstance(n, ast.Return) and n.value is not None]
        # `folder_len = len(folder_full)` hoisted into a local: read facts with such single-assignment length locals inlined
        ldefs = {}
        for n in ctx.own_nodes(f):
            if isinstance(n, ast.Assign) and isinstance(n.targets[0], ast.Name):
                ldefs.setdefault(n.targets[0].id, []).append(n.value)
        lens = {k: v[0] for k, v in ldefs.items() if len(v) == 1 and isinstance(v[0], ast.Call) and isinstance(v[0].func, ast.Name) and v[0].func.id == "len"}

        def inline(facts):
            if not lens:
                return facts
            out = set()
            for (txt, pol) in facts:
                try:
                    e = ast.parse(txt, mode="eval").body
                except SyntaxError:
                    out.add((txt, pol))
                    continue

                class S(ast.NodeTransformer):
                    def visit_Name(self, nm):
                        return lens.get(nm.id, nm)
                out.add((ast.unparse(S().visit(e)), pol))
            return out
        n_rel = 0
        for r in rets:
            v = r.value
            if isinstance(v, ast.Constant) and v.value is False:
                continue
            facts = inline(ctx.facts_at(f, r))
            if isinstance(v, ast.IfExp) and isinstance(v.body, ast.Constant) and v.body.value is False:
                facts = set(facts) | {(ast.unparse(v.test), False)}
            n_rel += 1
            def whole(e):      # a whole path operand: a plain name (possibly the folded twin), not a slice / index
                return isinstance(e, ast.Name)
            equal = any(whole(m["A"]) and whole(m["B"]) and {"folder", "target"} <= {w for x in (m["A"].id, m["B"].id) for w in ("folder", "target") if w in x}
                        for m in fact_binds(facts, "$A == $B", True))
            is_root = any((whole(m["A"]) and "folder" in m["A"].id) for m in fact_binds(facts, "$A == self.sep", True))
            boundary = bool(fact_binds(facts, "$T[len($F)] == self.sep", True)) or bool(fact_binds(facts, "$T.startswith($F + self.sep)", True))
            prefix = bool(fact_binds(facts, "$T.startswith($F)", True)) or bool(fact_binds(facts, "$T.startswith($F + self.sep)", True))
            good = equal or is_root or (boundary and prefix)
            rep.check("C12.Y5", "is_subpath|return %s" % ast.unparse(v)[:40], ctx.line(f, r), good,
                      "guarded by %s" % ("equality" if equal else "root folder" if is_root else "boundary + prefix"),
                      "a relative part is returned without a component-boundary test (facts: %s): `/rootX/f` is inside `/root`" % sorted(facts))
        if n_rel < 3:
            raise AnalysisError("is_subpath: only %d relative-part returns found, expected 3" % n_rel)
        lows = [n for n in ctx.own_nodes(f) if isinstance(n, ast.Assign) and isinstance(n.value, ast.Call) and isinstance(n.value.func, ast.Attribute) and n.value.func.attr in ("lower", "casefold", "upper")]
        folded = set()
        for a in lows:
            src = ast.unparse(a.value.func.value)
            folded.add("folder" if "folder" in src else "target" if "target" in src else src)
        rep.check("C12.Y5", "is_subpath|case-fold", f, folded in (set(), {"folder", "target"}), "case folded on %s" % (sorted(folded) or "neither operand"),
                  "case is folded on %s only: a case-insensitive provider compares a folded operand with an unfolded one" % sorted(folded))

    def y6(self):
        rep, ctx = self.rep, self.ctx
        rep.rule("C12.Y6", "Provider.set_root refuses to change an already set root: the stores to _root_path/_root_oid are only reachable "
                 "when not both are set", expect_min=2)
        f = ctx.prog.func("Provider.set_root")
        g = ctx.cfg(f)
        from sa.util import test_is
        tsig = {n.id: test_is(n, "self._root_path and self._root_oid") for n in g.nodes}
        tests = [n for n in g.nodes if tsig[n.id]]
        if not tests:
            rep.violation("C12.Y6", "set_root|guard", f, "set_root no longer tests whether a root is already set")
            return
        starts = [b for t in tests for (b, l) in g.succ[t.id] if l == ("T" if tsig[t.id] > 0 else "F")]
        n = 0
        for attr in ("_root_path", "_root_oid"):
            stores = [m for m in g.nodes if node_stores_attr(m, attr)]
            if not stores:
                raise AnalysisError("set_root: store to %s not found" % attr)
            n += 1
            pth = g.reach(starts, lambda m: m in stores, include_src=True)
            rep.check("C12.Y6", "set_root|%s" % attr, f, pth is None, "not reachable once both root path and id are set",
                      "the sync root can be re-pointed after it was set", witness=describe_path(pth) if pth else None)

    def y7(self):
        rep, ctx = self.rep, self.ctx
        rep.rule("C12.Y7", "check_revivify clears the ignore reason only for an IRRELEVANT entry whose provider-reported path translates, "
                 "and then resets the peer side so the object is treated as a creation", expect_min=2)
        f = ctx.prog.func("SyncManager.check_revivify")
        sync = f.params()[1]
        g = ctx.cfg(f)
        stores = [n for n in g.nodes if node_stores_attr(n, "ignored", None, recv=sync)]
        if not stores:
            raise AnalysisError("check_revivify: store to %s.ignored not found" % sync)
        for s in stores:
            facts = ctx.facts(f).facts(s)
            tpn = local_assigned_from(ctx, f, "self.translate($$$)") or "?"
            good = fact_in(facts, "%s.is_irrelevant" % sync, True) and fact_in(facts, tpn, True)
            rep.check("C12.Y7", "check_revivify|guard", ctx.line(f, s.ast), good, "under is_irrelevant and a translating path",
                      "an ignored entry is revived without checking that it is IRRELEVANT and that its current path translates (facts: %s)" % sorted(facts))
            clr = [n for n in g.nodes if node_has_call(n, "%s[$S].clear()" % sync)]
            pth = g.reach([s.id], lambda n: n is g.exit or n.kind == "iter", avoid=lambda n: n in clr, follow=NORMAL)
            rep.check("C12.Y7", "check_revivify|peer-reset", ctx.line(f, s.ast), bool(clr) and pth is None, "peer side cleared after revival",
                      "a revived entry keeps its stale peer side (no clear() after the revival)", witness=describe_path(pth) if pth else None)
        # the translated path is computed from the provider's CURRENT path of the object
        tr = [c for c in ctx.calls(f, "translate")]
        good = bool(tr) and all(self.sa.value_side(f, c.args[1]) is not None for c in tr if len(c.args) == 2)
        rep.check("C12.Y7", "check_revivify|current-path", f, good, "translate applied to the provider-reported path",
                  "check_revivify no longer translates the provider-reported path", nontrivial=False)
        # ... and that path is the provider's CURRENT answer (info_oid), not the path remembered in the state
        defs = {}
        for n in ctx.own_nodes(f):
            if isinstance(n, ast.Assign) and isinstance(n.targets[0], ast.Name):
                defs.setdefault(n.targets[0].id, []).append(n.value)

        def fresh(e, depth=0):
            if depth > 4:
                return False
            if isinstance(e, ast.Name):
                return e.id in defs and all(fresh(v, depth + 1) for v in defs[e.id])
            if isinstance(e, ast.Attribute) and e.attr == "path":
                return fresh(e.value, depth + 1)
            return isinstance(e, ast.Call) and (pat.match("self.providers[$S].info_oid($$$)", e) is not None or pat.match("self.providers[$S].info_path($$$)", e) is not None)
        for c in tr:
            if len(c.args) == 2:
                rep.check("C12.Y7", "check_revivify|asked-provider", ctx.line(f, c), fresh(c.args[1]), "the translated path is what the provider reports now (info_oid(...).path)",
                          "check_revivify translates `%s`, a path remembered in the state, instead of asking the provider: for an ignored entry nothing else refreshes it, so an "
                          "object that was moved INTO the root is never noticed (never created on the peer)" % ast.unparse(c.args[1]))

    def y9(self):
        rep, ctx = self.rep, self.ctx
        rep.rule("C12.Y9", "provider-side event filtering (MockProvider._filter_event): a folder whose event shows it entering the root (current path inside, known path "
                 "not inside) is answered with WALK under no further condition - its content, whose events were dropped while it was outside, is discovered by the walk", 1)
        f = ctx.prog.func("MockProvider._filter_event")
        g = ctx.cfg(f)
        walks = [n for n in g.nodes if n.kind == "stmt" and isinstance(n.ast, ast.Return) and n.ast.value is not None and ast.unparse(n.ast.value).endswith("EventFilter.WALK")]
        if not walks:
            rep.violation("C12.Y9", "_filter_event|walk", f, "the filter never answers WALK: the content of a folder moved into the root is never discovered")
            return
        ev = f.params()[1]
        cur = local_assigned_from(ctx, f, "self.is_subpath_of_root(%s.path)" % ev) or "curr_subpath"
        allowed = [("self._root_path", True), ("self._filter_events", True), ("self.oid_is_path", False), ("%s.exists" % ev, True), ("%s.path" % ev, True),
                   (cur, True), ("$PRIOR", False), ("%s.otype == DIRECTORY" % ev, True), ("not self._root_path or not self._filter_events or self.oid_is_path", False)]
        for w in walks:
            facts = ctx.facts(f).facts(w)
            extra = extra_facts(facts, allowed)
            need = fact_in(facts, cur, True) and has_fact(facts, "%s.otype == DIRECTORY" % ev, True)
            rep.check("C12.Y9", "_filter_event|walk", ctx.line(f, w.ast), need and not extra, "WALK for every folder entering the root",
                      "the walk for a folder entering the root is %s: a folder the engine has seen before (synced, moved out, filled, moved back in) arrives without its children" %
                      ("only issued under the extra condition(s) %s" % extra if extra else "not tied to `folder entering the root` (facts %s)" % sorted(facts)))


    def y8(self):
        rep, ctx = self.rep, self.ctx
        rep.rule("C12.Y8", "sync(), both sides renamed apart: the entry stays joined only when BOTH new names translate to the other side; if either does not "
                 "(one side was moved out of its root) the entry is split, so the out-of-root object is never renamed / dragged back by its id", 1)
        f = ctx.prog.func("SyncManager.sync")
        names = []
        defs = {}
        for n in ctx.own_nodes(f):
            if isinstance(n, ast.Assign) and len(n.targets) == 1 and isinstance(n.targets[0], ast.Name):
                defs.setdefault(n.targets[0].id, []).append(n.value)
                if any(isinstance(x, ast.Call) and pat.match("self.translate($$$)", x) is not None for x in ast.walk(n.value)):
                    names.append(n.targets[0].id)
        splits = [n for n in ctx.own_nodes(f) if isinstance(n, ast.Call) and pat.match("self.state.split($S)", n) is not None]
        if len(names) != 2 or not splits:
            raise AnalysisError("SyncManager.sync: the two translated names / the split call were not found (names=%s, splits=%d)" % (names, len(splits)))

        def implied(e, pol):
            """atoms that necessarily hold when `e` evaluates to `pol`"""
            if isinstance(e, ast.Name) and e.id not in names and len(defs.get(e.id, [])) == 1 and isinstance(defs[e.id][0], (ast.BoolOp, ast.UnaryOp)):
                e = defs[e.id][0]
            if isinstance(e, ast.UnaryOp) and isinstance(e.op, ast.Not):
                return implied(e.operand, not pol)
            if isinstance(e, ast.BoolOp) and isinstance(e.op, ast.And if pol else ast.Or):
                out = []
                for v in e.values:
                    out += implied(v, pol)
                return out
            return [ast.unparse(e) if pol else "not " + ast.unparse(e)]
        for sp in splits:
            # innermost If that has the split call in one arm and not in the other
            holder, arm = None, None
            for n in ctx.own_nodes(f):
                if isinstance(n, ast.If):
                    inb = any(x is sp for b in n.body for x in ast.walk(b))
                    ino = any(x is sp for b in n.orelse for x in ast.walk(b))
                    if inb != ino and (holder is None or any(x is n for x in ast.walk(holder))):
                        holder, arm = n, ("body" if inb else "orelse")
            ok, detail = False, "split is unconditional"
            if holder is not None:
                atoms = implied(holder.test, arm == "orelse")
                ok = all(nm in atoms for nm in names)
                detail = "the entry stays joined only when %s" % atoms
            rep.check("C12.Y8", "sync|split-guard", ctx.line(f, sp), ok, detail,
                      "a doubly renamed entry is kept joined although one of its new names does not translate (%s): the object that left the root is renamed by id - "
                      "an out-of-root object is modified" % detail)


def _parse(txt):
    try:
        return ast.parse(txt, mode="eval").body
    except SyntaxError:
        return None


def same(a, b) -> bool:
    from sa.sides import canon
    return a is not None and b is not None and canon(a) == canon(b)


def not_diff(a, b) -> bool:
    from sa.sides import provably_different
    return not provably_different(a, b)


def neg_show(s):
    from sa.sides import neg
    return neg(s)


def run(ctx: Ctx, rep: Report, tier: str):
    c = C12(ctx, rep)
    section(rep, c.y1)
    section(rep, c.y2)
    section(rep, c.y3)
    section(rep, c.y4)
    section(rep, c.y5)
    section(rep, c.y6)
    section(rep, c.y7)
    section(rep, c.y8)
    section(rep, c.y9)
    rep.assume("an application-supplied translate() returns None for what it declines; provider-side event filtering is not relied upon")
    from rules.common import subpath_lengths_are_normalised
    rep.rule("C12.Y5b", "the component-boundary test of is_subpath is positioned with the length of the normalised folder (C13.Z8): a root configured as `/local/` "
             "neither rejects its own content nor admits `/locals/...`", 2)
    section(rep, lambda: subpath_lengths_are_normalised(ctx, rep, "C12.Y5b"))
    from rules.common import refresh_marks_changed
    rep.rule("C12.Y10", "an object that left the root is noticed even before its event arrives: a refresh that discovers a new path marks the side changed (C14.W7), so a "
             "concurrent delete on the other side does not delete the moved-out object by its id", 2)
    section(rep, lambda: refresh_marks_changed(ctx, rep, "C12.Y10"))
    from rules.C20 import C20 as _C20
    from rules.common import alias as _alias12
    _alias12(rep, ["C20.S4"], "C12.Y11", "un-request pushes a pending local MOVE as well as a pending edit before it deletes the local copy (C20.S4): an object moved out of the "
             "root is not deleted through its refreshed path", 1, lambda: _C20(ctx, rep).s4(), keep=lambda i: i.key == "_smart_unsync_ent|push")
    from rules.common import content_first_deferral
    rep.rule("C12.Y12", "a move out of the root does not destroy a concurrent edit of the peer: the content change is handled first (C02.R15)", 1)
    section(rep, lambda: content_first_deferral(ctx, rep, "C12.Y12"))
    from rules.common import refresh_covers_both_sides
    rep.rule("C12.Y13", "an object that left the root is noticed before it is addressed by id: the pre-sync refresh re-reads the quiet side too (C14.W1)", 1)
    section(rep, lambda: refresh_covers_both_sides(ctx, rep, "C12.Y13"))
    from rules.C06 import C06 as _C06c
    _alias12(rep, ["C06.R6"], "C12.Y14", "persisted state belongs to one pair of roots: storage_label names both providers' connection ids and BOTH roots (C06.R6), so a sync "
             "re-pointed at another root never inherits entries - ids of objects outside its root", 1, lambda: _C06c(ctx, rep).r6())
    from rules.decisions import decision_table, table_sites
    rep.rule("C12.DT", "decision table (rules/decisions.json) of root validation in the sync manager, the event manager and the provider base class: for every function and every action shape (an impure call with the parameters it passes, a store to an "
             "attribute or item, a delete, a returned constant, a yield, a raise) the set of states - over the function's guard atoms - in which the action is taken "
             "equals the recorded one; compared as canonical decision diagrams, so any equivalent respelling of the guards is the same table", table_sites("C12"))
    section(rep, lambda: decision_table(ctx, rep, "C12.DT", "C12"))
